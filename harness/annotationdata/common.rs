use super::super::*;
pub(crate) fn mk_data(i: usize, key: usize, v: isize) -> AnnotationData {
    AnnotationData { intid: Some(AnnotationDataHandle::new(i)), id: None, key: DataKeyHandle::new(key), value: DataValue::Int(v) }
}
