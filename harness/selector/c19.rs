// C19 — SelectorKind parser is total; only documented names resolve
use super::super::*;
use crate::types::kani_verif::common::{encode3, fmt_stub};

#[kani::proof]
#[kani::unwind(14)]
#[kani::stub(alloc::fmt::format, fmt_stub)]
fn c19_selectorkind_from_str() {
    let cs: [char; 3] = [kani::any(), kani::any(), kani::any()];
    let n: usize = kani::any();
    kani::assume(n <= 3);
    let mut buf = [0u8; 12];
    let len = encode3(n, &cs, &mut buf);
    let s: &str = unsafe { core::str::from_utf8_unchecked(&buf[..len]) };
    let got = SelectorKind::try_from(s);
    if let Ok(k) = &got {
        assert!(n == 3, "no selector kind has a shorter name");
        assert!((cs == ['s', 'e', 't'] && *k == SelectorKind::DataSetSelector) || (cs == ['k', 'e', 'y'] && *k == SelectorKind::DataKeySelector), "only 'set' and 'key' are 3-letter selector kinds");
    }
    kani::cover!(matches!(got, Ok(SelectorKind::DataKeySelector)), "key");
    kani::cover!(got.is_err() && n == 3, "refused");
    core::mem::forget(got);
}
