// C04 — the offset a TextSelector reports back (Selector::offset / offset_with_mode, used by every serialiser):
// well-formed in each of the four modes and re-resolving to the stored range, for every text length and range.
use super::super::*;
use crate::annotationstore::kani_verif::common::store_with_resource;
use crate::resources::kani_verif::common::{bare, selections_mut};
use crate::types::kani_verif::common::{fmt_stub, rs_new};
use crate::store::StoreFor;

macro_rules! sel_report {
    ($name:ident, $mode:expr) => {
        #[kani::proof]
        #[kani::unwind(4)]
        #[kani::stub(alloc::fmt::format, fmt_stub)]
        #[kani::stub(std::hash::RandomState::new, rs_new)]
        fn $name() {
            let textlen: usize = kani::any();
            let b: usize = kani::any();
            let e: usize = kani::any();
            kani::assume(textlen <= isize::MAX as usize && b <= e && e <= textlen);
            let mut res = bare(textlen);
            selections_mut(&mut res).push(Some(TextSelection { intid: Some(TextSelectionHandle::new(0)), begin: b, end: e }));
            let store = store_with_resource(res);
            // the mode the selector was created with is arbitrary; the requested mode overrides it
            let sel = Selector::TextSelector(TextResourceHandle::new(0), TextSelectionHandle::new(0), OffsetMode::BeginBegin);
            let got = sel.offset_with_mode(&store, Some($mode));
            match &got {
                None => assert!(false, "a text selector always carries an offset"),
                Some(off) => {
                    assert!(off.mode() == $mode, "reported in the requested alignment");
                    if let Cursor::EndAligned(x) = off.begin { assert!(x <= 0, "reported end-aligned begin cursor is never positive"); }
                    if let Cursor::EndAligned(x) = off.end { assert!(x <= 0, "reported end-aligned end cursor is never positive"); }
                    let resource: &TextResource = store.get(TextResourceHandle::new(0)).unwrap();
                    let back = resource.textselection_by_offset(off);
                    match &back {
                        Ok(t) => assert!(t.begin() == b && t.end() == e, "the reported offset re-resolves to the stored range"),
                        Err(_) => assert!(false, "the reported offset must re-resolve"),
                    }
                    core::mem::forget(back);
                }
            }
            // and the selector's own mode is used when no override is given
            let own = Selector::TextSelector(TextResourceHandle::new(0), TextSelectionHandle::new(0), $mode).offset(&store);
            assert!(own == got, "Selector::offset() reports in the selector's own mode");
            kani::cover!(e == textlen && b < e, "selection touching the end of the text");
            kani::cover!(b == e, "zero-width selection");
            kani::cover!(textlen > 1000 && e < textlen, "selection inside a long text");
            core::mem::forget(store);
        }
    };
}
sel_report!(c04_sel_report_beginbegin, OffsetMode::BeginBegin);
sel_report!(c04_sel_report_beginend, OffsetMode::BeginEnd);
sel_report!(c04_sel_report_endbegin, OffsetMode::EndBegin);
sel_report!(c04_sel_report_endend, OffsetMode::EndEnd);
