// C02 — Annotation::remove_data drops exactly the addressed (set,data) reference ("an annotation only loses the removed data")
use super::super::*;

fn mk(v: &[(u16, u32); 3]) -> Annotation {
    let mut data: DataVec = Vec::with_capacity(4);
    let mut i = 0;
    while i < 3 {
        data.push((AnnotationDataSetHandle::new(v[i].0 as usize), AnnotationDataHandle::new(v[i].1 as usize)));
        i += 1;
    }
    Annotation { intid: Some(AnnotationHandle::new(0)), id: None, data, target: Selector::ResourceSelector(TextResourceHandle::new(0)) }
}

#[kani::proof]
#[kani::unwind(5)]
fn c02_annotation_remove_data() {
    let v: [(u16, u32); 3] = kani::any();
    let set: u16 = kani::any();
    let data: u32 = kani::any();
    let mut a = mk(&v);
    a.remove_data(AnnotationDataSetHandle::new(set as usize), AnnotationDataHandle::new(data as usize));
    // oracle: keep, in order, the pairs different from (set,data)
    let mut want: [(u16, u32); 3] = [(0, 0); 3];
    let mut n = 0;
    let mut i = 0;
    while i < 3 {
        if !(v[i].0 == set && v[i].1 == data) { want[n] = v[i]; n += 1; }
        i += 1;
    }
    assert!(a.len() == n, "exactly the references equal to (set,data) are removed");
    let mut j = 0;
    while j < 3 {
        if j < n {
            let got = a.data_by_index(j).unwrap();
            assert!(got.0.as_usize() == want[j].0 as usize && got.1.as_usize() == want[j].1 as usize, "the other references survive in their order");
        }
        j += 1;
    }
    assert!(!a.has_data(AnnotationDataSetHandle::new(set as usize), AnnotationDataHandle::new(data as usize)), "the removed reference is gone");
    kani::cover!(n == 2, "one reference removed, two survive");
    kani::cover!(n == 3, "nothing to remove");
    kani::cover!(n == 2 && v[0].0 == set && v[0].1 != data, "a survivor shares the set of the removed reference");
    kani::cover!(n == 2 && v[0].1 == data && v[0].0 != set, "a survivor shares the data handle (in another set) of the removed reference");
    core::mem::forget(a);
}
