use super::super::*;
pub(crate) fn mk_annotation(handle: usize, data: &[(usize, usize)], target: Selector) -> Annotation {
    let mut d: DataVec = Vec::with_capacity(4);
    let mut i = 0;
    while i < data.len() {
        d.push((AnnotationDataSetHandle::new(data[i].0), AnnotationDataHandle::new(data[i].1)));
        i += 1;
    }
    Annotation { intid: Some(AnnotationHandle::new(handle)), id: None, data: d, target }
}
