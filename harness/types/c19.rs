// C19 — string-level parsers reachable from the loaders are total on every string of <= 3 code points
use super::super::*;
use super::common::*;

macro_rules! cursor_from_str {
    ($name:ident, $n:expr) => {
        #[kani::proof]
        #[kani::unwind(8)]
        #[kani::stub(alloc::fmt::format, fmt_stub)]
        fn $name() {
            let cs: [char; 3] = [kani::any(), kani::any(), kani::any()];
            let mut buf = [0u8; 12];
            let len = encode3($n, &cs, &mut buf);
            let s: &str = unsafe { core::str::from_utf8_unchecked(&buf[..len]) };
            let got = Cursor::try_from(s);
            match &got {
                Ok(Cursor::EndAligned(x)) => {
                    assert!(cs[0] == '-' && $n >= 2, "only a leading minus sign gives an end-aligned cursor");
                    assert!(*x <= 0, "a parsed end-aligned cursor is never positive");
                }
                Ok(Cursor::BeginAligned(_)) => {
                    assert!($n >= 1 && cs[0] != '-', "without a minus sign the cursor is begin-aligned");
                }
                Err(_) => {}
            }
            // the textual forms the writer emits map back: "-0", "-d", "d", "dd"
            if $n == 2 && cs[0] == '-' && cs[1].is_ascii_digit() {
                assert!(matches!(got, Ok(Cursor::EndAligned(x)) if x == -((cs[1] as isize) - 48)), "\"-d\" is EndAligned(-d)");
            }
            if $n == 1 && cs[0].is_ascii_digit() {
                assert!(matches!(got, Ok(Cursor::BeginAligned(x)) if x == (cs[0] as usize) - 48), "\"d\" is BeginAligned(d)");
            }
            // value-exact on every all-digit body (1 or 2 digits after the optional minus sign)
            if $n == 3 && cs[0] == '-' && cs[1].is_ascii_digit() && cs[2].is_ascii_digit() {
                let v = ((cs[1] as isize) - 48) * 10 + ((cs[2] as isize) - 48);
                assert!(matches!(got, Ok(Cursor::EndAligned(x)) if x == -v), "\"-dd\" is EndAligned(-dd)");
            }
            if $n == 2 && cs[0].is_ascii_digit() && cs[1].is_ascii_digit() {
                let v = ((cs[0] as usize) - 48) * 10 + ((cs[1] as usize) - 48);
                assert!(matches!(got, Ok(Cursor::BeginAligned(x)) if x == v), "\"dd\" is BeginAligned(dd)");
            }
            // and nothing but digits (std's grammar also admits one leading '+' for the begin-aligned form: tolerated)
            // ever yields a value: a parsed cursor's magnitude is the decimal value of the digits
            if let Ok(Cursor::EndAligned(x)) = &got {
                assert!(*x > -100, "at most two digits follow the sign");
            }
            if let Ok(Cursor::BeginAligned(x)) = &got {
                assert!(*x < 1000, "at most three digits");
                assert!(cs[0].is_ascii_digit() || (cs[0] == '+' && $n >= 2), "a begin-aligned cursor starts with a digit (or std's '+')");
            }
            kani::cover!($n < 2 || matches!(got, Ok(Cursor::EndAligned(_))), "end-aligned parsed");
            kani::cover!($n < 1 || matches!(got, Ok(Cursor::BeginAligned(_))), "begin-aligned parsed");
            kani::cover!($n < 1 || (got.is_err() && cs[0].len_utf8() == 3), "3-byte character refused");
            core::mem::forget(got);
        }
    };
}
cursor_from_str!(c19_cursor_from_str_len0, 0);
cursor_from_str!(c19_cursor_from_str_len1, 1);
cursor_from_str!(c19_cursor_from_str_len2, 2);
cursor_from_str!(c19_cursor_from_str_len3, 3);

// concrete witnesses (NO symbolic input): the extreme integers a document can carry in a cursor. A symbolic
// 20-character string does not finish in the integer parser (see C09), so these are ordinary tests pushed through the
// same tool chain: no panic / overflow, and the value is the literal's.
macro_rules! cursor_extreme_witness {
    ($name:ident, $lit:expr, $expect:pat) => {
        #[kani::proof]
        #[kani::unwind(24)]
        #[kani::stub(alloc::fmt::format, fmt_stub)]
        fn $name() {
            let s: &str = $lit;
            let got = Cursor::try_from(s);
            assert!(matches!(got, $expect), "extreme cursor literal: exact value or an error, never a panic");
            core::mem::forget(got);
        }
    };
}
cursor_extreme_witness!(c19_witness_cursor_isize_min, "-9223372036854775808", Ok(Cursor::EndAligned(isize::MIN)));
cursor_extreme_witness!(c19_witness_cursor_below_isize_min, "-9223372036854775809", Err(_));
cursor_extreme_witness!(c19_witness_cursor_usize_max, "18446744073709551615", Ok(Cursor::BeginAligned(usize::MAX)));
cursor_extreme_witness!(c19_witness_cursor_above_usize_max, "18446744073709551616", Err(_));
cursor_extreme_witness!(c19_witness_cursor_neg_usize_max, "-18446744073709551615", Err(_));

#[kani::proof]
#[kani::unwind(14)]
fn c19_dataformat_from_str() {
    let cs: [char; 3] = [kani::any(), kani::any(), kani::any()];
    let n: usize = kani::any();
    kani::assume(n <= 3);
    let mut buf = [0u8; 12];
    let len = encode3(n, &cs, &mut buf);
    let s: &str = unsafe { core::str::from_utf8_unchecked(&buf[..len]) };
    let got = DataFormat::try_from(s);
    if let Ok(f) = &got {
        assert!(n == 3 && *f == DataFormat::Csv && ((cs == ['c', 's', 'v']) || (cs == ['C', 's', 'v']) || (cs == ['C', 'S', 'V'])), "only the documented names are data formats");
    }
    kani::cover!(got.is_ok(), "csv");
    kani::cover!(got.is_err(), "refused");
    core::mem::forget(got);
}
