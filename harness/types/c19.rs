// C19 — string-level parsers reachable from the loaders are total on every string of <= 3 code points
use super::super::*;
use super::common::*;

macro_rules! cursor_from_str {
    ($name:ident, $n:expr) => {
        #[kani::proof]
        #[kani::unwind(8)]
        #[kani::stub(alloc::fmt::format, fmt_stub)]
        fn $name() {
            let cs: [char; 3] = [kani::any(), kani::any(), kani::any()];
            let mut buf = [0u8; 12];
            let len = encode3($n, &cs, &mut buf);
            let s: &str = unsafe { core::str::from_utf8_unchecked(&buf[..len]) };
            let got = Cursor::try_from(s);
            match &got {
                Ok(Cursor::EndAligned(x)) => {
                    assert!(cs[0] == '-' && $n >= 2, "only a leading minus sign gives an end-aligned cursor");
                    assert!(*x <= 0, "a parsed end-aligned cursor is never positive");
                }
                Ok(Cursor::BeginAligned(_)) => {
                    assert!($n >= 1 && cs[0] != '-', "without a minus sign the cursor is begin-aligned");
                }
                Err(_) => {}
            }
            // the textual forms the writer emits map back: "-0", "-d", "d", "dd"
            if $n == 2 && cs[0] == '-' && cs[1].is_ascii_digit() {
                assert!(matches!(got, Ok(Cursor::EndAligned(x)) if x == -((cs[1] as isize) - 48)), "\"-d\" is EndAligned(-d)");
            }
            if $n == 1 && cs[0].is_ascii_digit() {
                assert!(matches!(got, Ok(Cursor::BeginAligned(x)) if x == (cs[0] as usize) - 48), "\"d\" is BeginAligned(d)");
            }
            kani::cover!($n < 2 || matches!(got, Ok(Cursor::EndAligned(_))), "end-aligned parsed");
            kani::cover!($n < 1 || matches!(got, Ok(Cursor::BeginAligned(_))), "begin-aligned parsed");
            kani::cover!($n < 1 || (got.is_err() && cs[0].len_utf8() == 3), "3-byte character refused");
            core::mem::forget(got);
        }
    };
}
cursor_from_str!(c19_cursor_from_str_len0, 0);
cursor_from_str!(c19_cursor_from_str_len1, 1);
cursor_from_str!(c19_cursor_from_str_len2, 2);
cursor_from_str!(c19_cursor_from_str_len3, 3);

#[kani::proof]
#[kani::unwind(14)]
fn c19_dataformat_from_str() {
    let cs: [char; 3] = [kani::any(), kani::any(), kani::any()];
    let n: usize = kani::any();
    kani::assume(n <= 3);
    let mut buf = [0u8; 12];
    let len = encode3(n, &cs, &mut buf);
    let s: &str = unsafe { core::str::from_utf8_unchecked(&buf[..len]) };
    let got = DataFormat::try_from(s);
    if let Ok(f) = &got {
        assert!(n == 3 && *f == DataFormat::Csv && ((cs == ['c', 's', 'v']) || (cs == ['C', 's', 'v']) || (cs == ['C', 'S', 'V'])), "only the documented names are data formats");
    }
    kani::cover!(got.is_ok(), "csv");
    kani::cover!(got.is_err(), "refused");
    core::mem::forget(got);
}
