// C04 — cursor helpers: TryFrom<isize>, shift
use super::super::*;
use super::common::*;

#[kani::proof]
#[kani::stub(alloc::fmt::format, fmt_stub)]
fn c04_cursor_try_from_isize() {
    let x: isize = kani::any();
    let r = Cursor::try_from(x);
    match &r {
        Ok(c) => assert!(x <= 0 && *c == Cursor::EndAligned(x), "non-positive integers become end-aligned cursors"),
        Err(_) => assert!(x > 0, "only positive integers are refused"),
    }
    kani::cover!(r.is_ok(), "accepted");
    kani::cover!(r.is_err(), "refused");
    core::mem::forget(r);
}

#[kani::proof]
#[kani::stub(alloc::fmt::format, fmt_stub)]
fn c04_cursor_shift() {
    let wellformed_end: isize = kani::any();
    kani::assume(wellformed_end <= 0);
    let c = if kani::any() { Cursor::BeginAligned(kani::any()) } else { Cursor::EndAligned(wellformed_end) };
    let d: isize = kani::any();
    let want: i128 = match c { Cursor::BeginAligned(x) => x as i128 + d as i128, Cursor::EndAligned(x) => x as i128 + d as i128 };
    let r = c.shift(d);
    match (&r, &c) {
        (Ok(Cursor::BeginAligned(y)), Cursor::BeginAligned(_)) => assert!(*y as i128 == want, "begin-aligned shift is exact"),
        (Ok(Cursor::EndAligned(y)), Cursor::EndAligned(_)) => assert!(*y as i128 == want && *y <= 0, "end-aligned shift is exact and stays non-positive"),
        (Ok(_), _) => assert!(false, "shift keeps the alignment"),
        (Err(_), Cursor::BeginAligned(_)) => assert!(want < 0 || want > usize::MAX as i128, "begin-aligned shift fails only outside 0..=usize::MAX"),
        (Err(_), Cursor::EndAligned(_)) => assert!(want > 0 || want < isize::MIN as i128, "end-aligned shift fails only outside isize::MIN..=0"),
    }
    kani::cover!(r.is_ok() && d < 0, "shift left");
    kani::cover!(r.is_err(), "refused");
    core::mem::forget(r);
}
