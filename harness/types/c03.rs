// C03 — Handle::reindex is the renumbering that closes the gaps: for a symbolic, well-formed gap list of 3 runs
// and symbolic live handles (32-bit), new = old - (number of removed slots below old)
use super::super::*;
use crate::annotation::AnnotationHandle;

/// well-formed gap list as produced by gaps(): entry i = (h_i, -k_i), run i occupies slots [h_i-k_i, h_i),
/// runs are disjoint, ordered, and separated by at least one live slot (h_{i-1})
fn any_gaps() -> ([(AnnotationHandle, isize); 3], [usize; 3], [usize; 3]) {
    let h: [u32; 3] = kani::any();
    let k: [u32; 3] = kani::any();
    kani::assume(k[0] >= 1 && k[1] >= 1 && k[2] >= 1 && k[0] < (1 << 10) && k[1] < (1 << 10) && k[2] < (1 << 10));
    kani::assume(h[0] >= k[0]);
    kani::assume(h[1] > h[0] && h[1] - h[0] > k[1]);
    kani::assume(h[2] > h[1] && h[2] - h[1] > k[2]);
    kani::assume(h[2] < (1 << 20));
    let g = [
        (AnnotationHandle::new(h[0] as usize), -(k[0] as isize)),
        (AnnotationHandle::new(h[1] as usize), -(k[1] as isize)),
        (AnnotationHandle::new(h[2] as usize), -(k[2] as isize)),
    ];
    (g, [h[0] as usize, h[1] as usize, h[2] as usize], [k[0] as usize, k[1] as usize, k[2] as usize])
}
fn live(x: usize, h: &[usize; 3], k: &[usize; 3]) -> bool {
    !((x >= h[0] - k[0] && x < h[0]) || (x >= h[1] - k[1] && x < h[1]) || (x >= h[2] - k[2] && x < h[2]))
}
fn removed_below(x: usize, h: &[usize; 3], k: &[usize; 3]) -> usize {
    (if h[0] <= x { k[0] } else { 0 }) + (if h[1] <= x { k[1] } else { 0 }) + (if h[2] <= x { k[2] } else { 0 })
}

#[kani::proof]
#[kani::unwind(5)]
fn c03_handle_reindex_exact() {
    let (g, h, k) = any_gaps();
    let old: u32 = kani::any();
    kani::assume(old < (1 << 21));
    let old = old as usize;
    kani::assume(live(old, &h, &k));
    let new = AnnotationHandle::new(old).reindex(&g).as_usize();
    assert!(new == old - removed_below(old, &h, &k), "a live item moves down by the number of removed slots below it");
    kani::cover!(old == h[0], "first live item after the first gap");
    kani::cover!(old == h[2], "first live item after the last gap");
    kani::cover!(old > h[2], "beyond all gaps");
    kani::cover!(old < h[0] - k[0], "before all gaps");
}

#[kani::proof]
#[kani::unwind(5)]
fn c03_handle_reindex_compact() {
    let (g, h, k) = any_gaps();
    let a: u32 = kani::any();
    let b: u32 = kani::any();
    kani::assume(a < b && b < (1 << 21));
    let (a, b) = (a as usize, b as usize);
    kani::assume(live(a, &h, &k) && live(b, &h, &k));
    let na = AnnotationHandle::new(a).reindex(&g).as_usize();
    let nb = AnnotationHandle::new(b).reindex(&g).as_usize();
    assert!(na < nb, "renumbering keeps the order and never maps two live items to one handle");
    // consecutive live items (nothing live in between) get consecutive handles
    let adjacent = b == a + 1 || (b == h[0] && a + 1 == h[0] - k[0]) || (b == h[1] && a + 1 == h[1] - k[1]) || (b == h[2] && a + 1 == h[2] - k[2]);
    if adjacent { assert!(nb == na + 1, "no gap remains between consecutive live items"); }
    kani::cover!(adjacent && b == h[1], "pair straddling the second gap");
    kani::cover!(!adjacent, "non-adjacent pair");
}

// empty gap list: identity
#[kani::proof]
#[kani::unwind(3)]
fn c03_handle_reindex_nogaps() {
    let old: u32 = kani::any();
    let g: [(AnnotationHandle, isize); 0] = [];
    assert!(AnnotationHandle::new(old as usize).reindex(&g).as_usize() == old as usize, "without gaps nothing moves");
    kani::cover!(old > 0, "reached");
}
