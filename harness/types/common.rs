// helpers shared by all harness modules
use super::super::*;

/// stands in for alloc::fmt::format: the text of error messages is never a subject
pub(crate) fn fmt_stub(_a: core::fmt::Arguments<'_>) -> String {
    String::new()
}

/// stands in for std::hash::RandomState::new (thread-local seeds + getrandom): hash seeds are never a subject;
/// used only where a HashMap is constructed but not exercised
pub(crate) fn rs_new() -> std::hash::RandomState {
    unsafe { core::mem::transmute((0u64, 0u64)) }
}

/// UTF-8 encoding of the first n of the given code points into a stack buffer; returns the byte length.
/// (heap-allocated Strings with symbolic contents exhaust the back end; stack buffers do not)
pub(crate) fn encode3(n: usize, cs: &[char; 3], buf: &mut [u8; 12]) -> usize {
    let mut len = 0;
    let mut i = 0;
    while i < n {
        len += cs[i].encode_utf8(&mut buf[len..]).len();
        i += 1;
    }
    len
}
