// helpers shared by all harness modules
use super::super::*;

/// stands in for alloc::fmt::format: the text of error messages is never a subject
pub(crate) fn fmt_stub(_a: core::fmt::Arguments<'_>) -> String {
    String::new()
}

/// stands in for std::hash::RandomState::new (thread-local seeds + getrandom): hash seeds are never a subject;
/// used only where a HashMap is constructed but not exercised
pub(crate) fn rs_new() -> std::hash::RandomState {
    unsafe { core::mem::transmute((0u64, 0u64)) }
}
