// helpers shared by all harness modules
use super::super::*;

/// stands in for alloc::fmt::format: the text of error messages is never a subject
pub(crate) fn fmt_stub(_a: core::fmt::Arguments<'_>) -> String {
    String::new()
}
