use super::super::*;
pub(crate) fn mk_key(i: usize) -> DataKey {
    DataKey { intid: Some(DataKeyHandle::new(i)), id: String::new() }
}
