// C03 — a temporary identifier resolves only for the kind it names: StoreFor::<T>::resolve_id("!X<d>")
use super::super::*;
use super::common::*;
use crate::types::kani_verif::common::{fmt_stub, rs_new};

fn temp_id(letter: u8, digit: u8) -> String {
    let mut s = String::with_capacity(4);
    s.push('!');
    s.push(letter as char);
    s.push(digit as char);
    s
}

macro_rules! kind {
    ($name:ident, $t:ty, $own:expr) => {
        #[kani::proof]
        #[kani::unwind(8)]
        #[kani::stub(std::hash::RandomState::new, rs_new)]
        #[kani::stub(alloc::fmt::format, fmt_stub)]
        fn $name() {
            let s = mk_set(&[0, 0, 1]);
            let letter: u8 = kani::any();
            let digit: u8 = kani::any();
            kani::assume(letter >= b'A' && letter <= b'Z' && digit >= b'0' && digit <= b'9');
            let id = temp_id(letter, digit);
            let got = <AnnotationDataSet as StoreFor<$t>>::resolve_id(&s, id.as_str());
            match &got {
                Ok(h) => {
                    assert!(letter == $own, "a temporary identifier of another kind does not resolve here");
                    assert!(h.as_usize() == (digit - b'0') as usize, "it resolves to the handle it names");
                }
                Err(_) => assert!(letter != $own, "the kind's own temporary identifiers resolve"),
            }
            kani::cover!(got.is_ok(), "own kind resolves");
            kani::cover!(got.is_err() && letter == b'A', "annotation temp id refused");
            core::mem::forget(got);
            core::mem::forget(id);
            core::mem::forget(s);
        }
    };
}
kind!(c03_kind_datakey, DataKey, b'K');
kind!(c03_kind_annotationdata, AnnotationData, b'D');
