// C10 - "asking a key for its data returns exactly the items carrying that key, at all times": concrete witnesses
// (NO symbolic input) for the key->data index after the removal of ONE data item (its siblings under the same key must
// stay listed). The symbolic version of this callback exhausts the back end (see ../annotationdataset/c01.rs).
use super::super::*;
use super::common::*;
use crate::store::private::StoreCallbacks;
use crate::types::kani_verif::common::{fmt_stub, rs_new};

macro_rules! key_data_after_data_removal {
    ($name:ident, $keys:expr, $d:expr) => {
        #[kani::proof]
        #[kani::unwind(6)]
        #[kani::stub(std::hash::RandomState::new, rs_new)]
        #[kani::stub(alloc::fmt::format, fmt_stub)]
        #[kani::stub(ChangeMarker::mark_changed, MarkStub::mark_changed_stub)]
        fn $name() {
            let keys_of: [u32; 3] = $keys;
            let mut s = mk_set(&keys_of);
            let r = <AnnotationDataSet as StoreCallbacks<AnnotationData>>::preremove(&mut s, AnnotationDataHandle::new($d));
            assert!(r.is_ok(), "removing an existing data item succeeds");
            let mut k = 0;
            while k < 3 {
                let want = want_row(&keys_of, k, Some($d)).0;
                let got = krow(&s, k).0;
                assert!(got == want || (want == 0 && got == usize::MAX), "each key lists as many items as still carry it");
                k += 1;
            }
            kani::cover!(true, "reached");
            core::mem::forget(r);
            core::mem::forget(s);
        }
    };
}
key_data_after_data_removal!(c10_witness_key_data_sibling_survives, [0, 0, 1], 0);
key_data_after_data_removal!(c10_witness_key_data_other_key_untouched, [1, 2, 2], 2);
