// C01(b) — the key -> data index of a dataset stays exact under the store callbacks
use super::super::*;
use super::common::*;
use crate::store::private::StoreCallbacks;
use crate::types::kani_verif::common::{fmt_stub, rs_new};

/// oracle: row k of the index = data handles d (ascending) with keys_of[d] == k, minus `without`
// the assignment of data items to keys (the shape of the index) and the removed handle are concrete per harness
// (a symbolic handle after which all rows are read back exhausts the back end); the handles listed in the index
// are symbolic. Oracle: rows of the other keys are exactly what they were.
macro_rules! key_preremove {
    ($name:ident, $keys:expr, $k:expr) => {
        #[kani::proof]
        #[kani::unwind(6)]
        #[kani::stub(std::hash::RandomState::new, rs_new)]
        #[kani::stub(alloc::fmt::format, fmt_stub)]
        #[kani::stub(ChangeMarker::mark_changed, MarkStub::mark_changed_stub)]
        fn $name() {
            let keys_of: [u32; 3] = $keys;
            let listed: [u32; 3] = kani::any();
            kani::assume(listed[0] < 90 && listed[1] < 90 && listed[2] < 90);
            let mut s = mk_set_with(&keys_of, &listed);
            let k: usize = $k;
            let r = <AnnotationDataSet as StoreCallbacks<DataKey>>::preremove(&mut s, DataKeyHandle::new(k));
            assert!(r.is_ok(), "removing an existing key succeeds");
            let mut i = 0;
            while i < 3 {
                if i != k {
                    assert!(krow(&s, i) == want_row_with(&keys_of, &listed, i), "asking a DIFFERENT key for its data still returns exactly the items carrying that key");
                } else {
                    let row = krow(&s, i);
                    assert!(row.0 == 0 || row.0 == usize::MAX, "the removed key no longer lists data");
                }
                i += 1;
            }
            kani::cover!(listed[0] != listed[1], "distinct payload");
            core::mem::forget(r);
            core::mem::forget(s);
        }
    };
}
key_preremove!(c01_keydata_key_preremove_s001_k0, [0, 0, 1], 0);
key_preremove!(c01_keydata_key_preremove_s001_k1, [0, 0, 1], 1);
key_preremove!(c01_keydata_key_preremove_s001_k2, [0, 0, 1], 2);
key_preremove!(c01_keydata_key_preremove_s122_k0, [1, 2, 2], 0);
key_preremove!(c01_keydata_key_preremove_s122_k1, [1, 2, 2], 1);
key_preremove!(c01_keydata_key_preremove_s210_k0, [2, 1, 0], 0);
key_preremove!(c01_keydata_key_preremove_s210_k1, [2, 1, 0], 1);

// NOT decided here: StoreCallbacks<AnnotationData>::{inserted,preremove} on this dataset shape. Both are one-line
// wrappers around RelationMap::{insert,remove} (decided in store/c01.rs), but on a full AnnotationDataSet value
// the back end runs out of memory (> 24 GB in propositional reduction); see DESIGN.md.

// concrete witnesses (NO symbolic input): removing ONE data item leaves its siblings under the same key listed
macro_rules! data_preremove_witness {
    ($name:ident, $keys:expr, $d:expr) => {
        #[kani::proof]
        #[kani::unwind(6)]
        #[kani::stub(std::hash::RandomState::new, rs_new)]
        #[kani::stub(alloc::fmt::format, fmt_stub)]
        #[kani::stub(ChangeMarker::mark_changed, MarkStub::mark_changed_stub)]
        fn $name() {
            let keys_of: [u32; 3] = $keys;
            let mut s = mk_set(&keys_of);
            let r = <AnnotationDataSet as StoreCallbacks<AnnotationData>>::preremove(&mut s, AnnotationDataHandle::new($d));
            assert!(r.is_ok(), "removing an existing data item succeeds");
            let mut k = 0;
            while k < 3 {
                // only the row lengths are read back (reading the entries after the Vec::remove exhausts the back end)
                let want = want_row(&keys_of, k, Some($d)).0;
                let got = krow(&s, k).0;
                assert!(got == want || (want == 0 && got == usize::MAX), "each key lists as many items as still carry it");
                k += 1;
            }
            kani::cover!(true, "reached");
            core::mem::forget(r);
            core::mem::forget(s);
        }
    };
}
data_preremove_witness!(c01_witness_data_preremove_sibling, [0, 0, 1], 0);
data_preremove_witness!(c01_witness_data_preremove_last, [1, 2, 2], 2);
