// construction of an AnnotationDataSet with a fixed shape, bypassing builders and id maps
use super::super::*;
use crate::datavalue::DataValue;

/// 3 keys (k0,k1,k2), 3 data items: d0 -> key a, d1 -> key b, d2 -> key c (a,b,c symbolic < 3), values Int(i);
/// key_data_map filled consistently (rows pre-sized to capacity 4). No public ids (id maps stay empty).
pub(crate) fn mk_set(keys_of: &[u32; 3]) -> AnnotationDataSet { mk_set_with(keys_of, &[0, 1, 2]) }
/// as mk_set, but the handles listed in the key->data index are `listed[d]` instead of d (symbolic payload)
pub(crate) fn mk_set_with(keys_of: &[u32; 3], listed: &[u32; 3]) -> AnnotationDataSet {
    let mut keys: Vec<Option<DataKey>> = Vec::with_capacity(4);
    let mut i = 0;
    while i < 3 {
        keys.push(Some(crate::datakey::kani_verif::common::mk_key(i)));
        i += 1;
    }
    let mut data: Vec<Option<AnnotationData>> = Vec::with_capacity(5);
    let mut rows: Vec<Vec<AnnotationDataHandle>> = Vec::with_capacity(4);
    rows.push(Vec::with_capacity(4));
    rows.push(Vec::with_capacity(4));
    rows.push(Vec::with_capacity(4));
    let mut d = 0;
    while d < 3 {
        let k = keys_of[d] as usize;
        data.push(Some(crate::annotationdata::kani_verif::common::mk_data(d, k, d as isize)));
        rows[k].push(AnnotationDataHandle::new(listed[d] as usize));
        d += 1;
    }
    AnnotationDataSet {
        intid: Some(AnnotationDataSetHandle::new(0)),
        id: None,
        keys,
        data,
        filename: None,
        changed: Arc::new(RwLock::new(false)),
        key_idmap: IdMap::default(),
        data_idmap: IdMap::default(),
        key_data_map: crate::store::kani_verif::common::rm_from_rows(rows),
        config: Config::default(),
    }
}

/// row k of the key->data index as (len, entries...) with 99 for absent
pub(crate) fn krow(s: &AnnotationDataSet, k: usize) -> (usize, u32, u32, u32, u32) {
    match s.key_data_map.get(DataKeyHandle::new(k)) {
        None => (usize::MAX, 99, 99, 99, 99),
        Some(r) => {
            let g = |i: usize| r.get(i).map(|h| h.as_usize() as u32).unwrap_or(99);
            (r.len(), g(0), g(1), g(2), g(3))
        }
    }
}

/// the change flag (an Arc<RwLock<bool>> consulted only by serialisation) is not a subject of C01
pub(crate) trait MarkStub { fn mark_changed_stub(&self) {} }
impl<T> MarkStub for T {}

pub(crate) fn want_row(keys_of: &[u32; 3], k: usize, without: Option<usize>) -> (usize, u32, u32, u32, u32) {
    let mut r = [99u32; 4];
    let mut n = 0;
    let mut d = 0;
    while d < 3 {
        if keys_of[d] as usize == k && Some(d) != without { r[n] = d as u32; n += 1; }
        d += 1;
    }
    (n, r[0], r[1], r[2], r[3])
}


pub(crate) fn want_row_with(keys_of: &[u32; 3], listed: &[u32; 3], k: usize) -> (usize, u32, u32, u32, u32) {
    let mut r = [99u32; 4];
    let mut n = 0;
    let mut d = 0;
    while d < 3 {
        if keys_of[d] as usize == k { r[n] = listed[d]; n += 1; }
        d += 1;
    }
    (n, r[0], r[1], r[2], r[3])
}
