// C02 — StoreFor::remove leaves a tombstone and never reuses a handle (Store<TextSelection> in a TextResource)
use super::super::*;
use super::common::*;
use crate::types::kani_verif::common::fmt_stub;

// the removed handle is concrete per harness (a symbolic one merges the error path, with its drop glue, into every access)
macro_rules! store_remove {
    ($name:ident, $h:expr) => {
#[kani::proof]
#[kani::unwind(5)]
#[kani::stub(alloc::fmt::format, fmt_stub)]
fn $name() {
    let mut res = bare(100);
    let v: [(u8, u8); 3] = kani::any();
    let mut i = 0;
    res.textselections = Vec::with_capacity(4);
    while i < 3 {
        res.textselections.push(Some(TextSelection { intid: Some(TextSelectionHandle::new(i)), begin: v[i].0 as usize, end: v[i].0 as usize + v[i].1 as usize }));
        i += 1;
    }
    let h: u32 = $h;
    let handle = TextSelectionHandle::new(h as usize);
    let r = res.remove(handle);
    assert!(r.is_ok() == (h < 3), "removing succeeds exactly when the item exists");
    assert!(res.textselections.len() == 3, "the store does not shrink (tombstones)");
    assert!(res.next_handle() == TextSelectionHandle::new(3), "the next handle is never a reused one");
    let mut j = 0;
    while j < 3 {
        let slot = &res.textselections[j];
        if j == h as usize {
            assert!(slot.is_none(), "the removed slot is a tombstone");
        } else {
            match slot {
                Some(t) => assert!(t.begin == v[j].0 as usize && t.end == v[j].0 as usize + v[j].1 as usize && t.intid == Some(TextSelectionHandle::new(j)), "every other item is untouched"),
                None => assert!(false, "no other item disappears"),
            }
        }
        j += 1;
    }
    if h < 3 {
        let again = res.remove(handle);
        assert!(again.is_err(), "a removed item cannot be removed again");
        assert!(!res.has(handle), "a removed item is no longer there");
        let g = res.get(handle);
        assert!(g.is_err(), "a removed item no longer resolves");
        core::mem::forget(g);
        core::mem::forget(again);
    }
    kani::cover!(v[0].1 == 0, "zero-width selection in the store");
    core::mem::forget(r);
    core::mem::forget(res);
}
    };
}
store_remove!(c02_store_remove_first, 0);
store_remove!(c02_store_remove_middle, 1);
store_remove!(c02_store_remove_last, 2);
store_remove!(c02_store_remove_missing, 3);
