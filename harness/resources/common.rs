// Helpers shared by harnesses of every module: construction of TextResource values with a chosen
// shape, bypassing builders (this file is a child module of crate::resources, so private fields are reachable).
use super::super::*;
use crate::config::Config;

/// A resource without text but with an arbitrary (symbolic) length in code points.
/// Used wherever only `textlen()` is consulted (offset arithmetic, window selection).
pub(crate) fn bare(textlen: usize) -> TextResource {
    TextResource {
        intid: Some(TextResourceHandle::new(0)),
        id: String::new(),
        filename: None,
        text: String::new(),
        textlen,
        changed: Arc::new(RwLock::new(false)),
        textselections: Vec::new(),
        positionindex: PositionIndex::default(),
        byte2charmap: BTreeMap::new(),
        config: Config::default(),
    }
}

/// A resource with concrete text, no milestones (interval 0), empty position index.
pub(crate) fn with_text(text: &'static str, textlen: usize) -> TextResource {
    let mut r = bare(textlen);
    r.text = String::from(text);
    r.config.milestone_interval = 0;
    r
}

pub(crate) fn set_textlen(r: &mut TextResource, textlen: usize) {
    r.textlen = textlen;
}

pub(crate) fn selections_mut(r: &mut TextResource) -> &mut Vec<Option<TextSelection>> {
    &mut r.textselections
}
pub(crate) fn selections(r: &TextResource) -> &Vec<Option<TextSelection>> {
    &r.textselections
}
pub(crate) fn positionindex_len(r: &TextResource) -> usize {
    r.positionindex.0.len()
}
pub(crate) fn byte2char_len(r: &TextResource) -> usize {
    r.byte2charmap.len()
}

/// A text-less resource of `textlen` code points holding exactly one known selection [begin,end) with handle 0,
/// with its two position-index entries written directly (bytepos = charpos, i.e. an ASCII text).
pub(crate) fn with_one_selection(textlen: usize, begin: usize, end: usize) -> TextResource {
    let mut res = bare(textlen);
    let h = TextSelectionHandle::new(0);
    res.textselections.push(Some(TextSelection { intid: Some(h), begin, end }));
    if begin == end {
        res.positionindex.0.insert(begin, PositionIndexItem { bytepos: begin, end2begin: smallvec!((begin, h)), begin2end: smallvec!((end, h)) });
    } else {
        res.positionindex.0.insert(begin, PositionIndexItem { bytepos: begin, end2begin: smallvec!(), begin2end: smallvec!((end, h)) });
        res.positionindex.0.insert(end, PositionIndexItem { bytepos: end, end2begin: smallvec!((begin, h)), begin2end: smallvec!() });
    }
    res
}

use crate::types::kani_verif::common::encode3;
/// resource whose text is the UTF-8 encoding of the first n of 3 symbolic code points.
/// The String points into a caller-owned stack buffer (heap strings with symbolic contents exhaust the back end);
/// it is never dropped (the resource is forgotten).
pub(crate) fn sym_resource(n: usize, cs: &[char; 3], buf: &mut [u8; 12]) -> (TextResource, usize) {
    let len = encode3(n, cs, buf);
    let mut res = bare(n);
    res.text = unsafe { String::from_raw_parts(buf.as_mut_ptr(), len, 12) };
    res.config.milestone_interval = 0;
    (res, len)
}
/// naive oracle: byte offset of code point position p (p <= n)
pub(crate) fn prefix_bytes(p: usize, cs: &[char; 3]) -> usize {
    let mut b = 0;
    let mut i = 0;
    while i < p && i < 3 { b += cs[i].len_utf8(); i += 1; }
    b
}


/// stands in for core::str::count::count_chars (the chunked SIMD-style counter behind `str.chars().count()`, which
/// does not finish on symbolic text). Contract: the number of code points = bytes that are not continuation bytes.
pub(crate) fn naive_count(s: &str) -> usize {
    // loop-free for the <= 12 bytes of these harnesses (a loop would need a larger unwinding bound everywhere)
    let b = s.as_bytes();
    let l = b.len();
    assert!(l <= 12, "count stub: harness texts hold at most 12 bytes");
    let f = |i: usize| -> usize { if i < l && (b[i] & 0xC0) != 0x80 { 1 } else { 0 } };
    f(0) + f(1) + f(2) + f(3) + f(4) + f(5) + f(6) + f(7) + f(8) + f(9) + f(10) + f(11)
}
