// C06 — recording stub for TextResource::range: the B-tree walk itself is the trusted base
// (BTreeMap::range(lo..hi) yields exactly the keys in [lo,hi)); what is decided is WHICH windows the search walks.
use super::super::*;

pub(crate) const MAXWIN: usize = 4;
pub(crate) static mut WINDOWS: [(usize, usize); MAXWIN] = [(0, 0); MAXWIN];
pub(crate) static mut NWIN: usize = 0;

pub(crate) fn range_stub<'a>(r: &'a TextResource, begin: usize, end: usize) -> TextSelectionIter<'a> {
    unsafe {
        if NWIN < MAXWIN {
            WINDOWS[NWIN] = (begin, end);
        }
        NWIN += 1;
    }
    TextSelectionIter {
        iter: r.positionindex.0.range((Included(&0usize), Excluded(&0usize))),
        begin2enditer: None,
        end2beginiter: None,
        resource: r,
    }
}
