// C12 — code point <-> UTF-8 byte conversion is exact: texts of up to 3 code points, each symbolic over ALL of char
// (1-4 byte encodings), positions and byte offsets symbolic (also beyond the text), with and without a milestone.
use super::super::*;
use super::common::*;
use crate::types::kani_verif::common::{encode3, fmt_stub};
use crate::text::Text;

macro_rules! conv_plain {
    ($name:ident, $n:expr) => {
        #[kani::proof]
        #[kani::unwind(8)]
        #[kani::stub(alloc::fmt::format, fmt_stub)]
        #[kani::stub(core::str::count::count_chars, naive_count)]
        fn $name() {
            let cs: [char; 3] = [kani::any(), kani::any(), kani::any()];
            let mut buf = [0u8; 12];
            let (res, bytes) = sym_resource($n, &cs, &mut buf);
            // code point position -> byte
            let pos: usize = kani::any();
            kani::assume(pos <= $n + 2);
            let b = res.utf8byte(pos);
            match &b {
                Ok(b) => {
                    assert!(pos <= $n, "a position beyond the text has no byte offset");
                    assert!(*b == prefix_bytes(pos, &cs), "byte offset = length of the first pos code points");
                    let back = res.utf8byte_to_charpos(*b);
                    assert!(matches!(back, Ok(p) if p == pos), "and converts back to the same position");
                    core::mem::forget(back);
                }
                Err(_) => assert!(pos > $n, "every position from 0 to the text length (inclusive) converts"),
            }
            // byte -> code point position
            let bc: usize = kani::any();
            kani::assume(bc <= bytes + 2);
            let boundary = bc == prefix_bytes(0, &cs) || bc == prefix_bytes(1, &cs) || bc == prefix_bytes(2, &cs) || bc == prefix_bytes(3, &cs);
            let boundary = boundary && bc <= bytes;
            let p = res.utf8byte_to_charpos(bc);
            match &p {
                Ok(p) => {
                    assert!(boundary, "a byte offset inside a character or beyond the text is refused");
                    assert!(*p <= $n && prefix_bytes(*p, &cs) == bc, "the position found is the one whose byte offset it is");
                }
                Err(_) => assert!(!boundary, "every character boundary converts"),
            }
            kani::cover!($n < 1 || cs[0].len_utf8() == 4, "4-byte first character");
            kani::cover!($n < 2 || (cs[0].len_utf8() == 2 && cs[1].len_utf8() == 3), "mixed 2- and 3-byte characters");
            kani::cover!($n < 1 || (p.is_err() && bc < bytes), "byte offset inside a character");
            kani::cover!(b.is_err(), "position beyond the text");
            core::mem::forget(b);
            core::mem::forget(p);
            core::mem::forget(res);
        }
    };
}
conv_plain!(c12_conv_len0, 0);
conv_plain!(c12_conv_len1, 1);
conv_plain!(c12_conv_len2, 2);
conv_plain!(c12_conv_len3, 3);

// with one entry in the position index / byte map at code point k (what a milestone or an annotation boundary leaves
// behind): the answers must be the same as without it
macro_rules! conv_milestone {
    ($name:ident, $k:expr) => {
        conv_milestone!($name, $k, [kani::any(), kani::any(), kani::any()]);
    };
    ($name:ident, $k:expr, $cs:expr) => {
        #[kani::proof]
        #[kani::unwind(8)]
        #[kani::stub(alloc::fmt::format, fmt_stub)]
        #[kani::stub(core::str::count::count_chars, naive_count)]
        fn $name() {
            let cs: [char; 3] = $cs;
            let mut buf = [0u8; 12];
            let (mut res, bytes) = sym_resource(3, &cs, &mut buf);
            let kb = prefix_bytes($k, &cs);
            res.positionindex.0.insert($k, PositionIndexItem { bytepos: kb, end2begin: smallvec!(), begin2end: smallvec!() });
            res.byte2charmap.insert(kb, $k);
            let pos: usize = kani::any();
            kani::assume(pos <= 5);
            let b = res.utf8byte(pos);
            match &b {
                Ok(b) => assert!(pos <= 3 && *b == prefix_bytes(pos, &cs), "same answer as counting from the start"),
                Err(_) => assert!(pos > 3, "every position from 0 to the text length converts"),
            }
            let bc: usize = kani::any();
            kani::assume(bc <= bytes + 2);
            let boundary = (bc == 0 || bc == prefix_bytes(1, &cs) || bc == prefix_bytes(2, &cs) || bc == prefix_bytes(3, &cs)) && bc <= bytes;
            let p = res.utf8byte_to_charpos(bc);
            match &p {
                Ok(p) => assert!(boundary && *p <= 3 && prefix_bytes(*p, &cs) == bc, "same answer as counting from the start"),
                Err(_) => assert!(!boundary, "every character boundary converts"),
            }
            kani::cover!(pos > $k && pos <= 3, "position after the milestone");
            kani::cover!(pos < $k, "position before the milestone");
            kani::cover!(p.is_ok() && bc > kb, "byte offset after the milestone");
            kani::cover!(cs[2].len_utf8() == 4, "4-byte last character");
            core::mem::forget(b);
            core::mem::forget(p);
            core::mem::forget(res);
        }
    };
}
conv_milestone!(c12_conv_milestone_at1, 1);
conv_milestone!(c12_conv_milestone_at2, 2);
// cheaper variants for every change: the characters up to the milestone are fixed (so the index keys are concrete),
// the rest symbolic over all of char
conv_milestone!(c12_conv_milestone_at1_fixedprefix, 1, ['\u{e9}', kani::any(), kani::any()]);
conv_milestone!(c12_conv_milestone_at2_fixedprefix, 2, ['a', '\u{20ac}', kani::any()]);

// one map at a time (two B-trees in one harness cost 15 GB / 20 min; one costs a fraction)
macro_rules! ms_utf8byte {
    ($name:ident, $k:expr) => {
        #[kani::proof]
        #[kani::unwind(8)]
        #[kani::stub(alloc::fmt::format, fmt_stub)]
        #[kani::stub(core::str::count::count_chars, naive_count)]
        fn $name() {
            let cs: [char; 3] = [kani::any(), kani::any(), kani::any()];
            let mut buf = [0u8; 12];
            let (mut res, _bytes) = sym_resource(3, &cs, &mut buf);
            let kb = prefix_bytes($k, &cs);
            res.positionindex.0.insert($k, PositionIndexItem { bytepos: kb, end2begin: smallvec!(), begin2end: smallvec!() });
            let pos: usize = kani::any();
            kani::assume(pos <= 5);
            let b = res.utf8byte(pos);
            match &b {
                Ok(b) => assert!(pos <= 3 && *b == prefix_bytes(pos, &cs), "same answer as counting from the start"),
                Err(_) => assert!(pos > 3, "every position from 0 to the text length converts"),
            }
            kani::cover!(pos > $k && pos <= 3, "position after the milestone");
            kani::cover!(pos < $k, "position before the milestone");
            kani::cover!(pos == 3 && cs[2].len_utf8() == 4, "end of text after a 4-byte character");
            core::mem::forget(b);
            core::mem::forget(res);
        }
    };
}
ms_utf8byte!(c12_ms_utf8byte_at1, 1);
ms_utf8byte!(c12_ms_utf8byte_at2, 2);

macro_rules! ms_charpos {
    ($name:ident, $k:expr, $cs:expr) => {
        #[kani::proof]
        #[kani::unwind(8)]
        #[kani::stub(alloc::fmt::format, fmt_stub)]
        #[kani::stub(core::str::count::count_chars, naive_count)]
        fn $name() {
            let cs: [char; 3] = $cs;
            let mut buf = [0u8; 12];
            let (mut res, bytes) = sym_resource(3, &cs, &mut buf);
            let kb = prefix_bytes($k, &cs);
            res.byte2charmap.insert(kb, $k);
            let bc: usize = kani::any();
            kani::assume(bc <= bytes + 2);
            let boundary = (bc == 0 || bc == prefix_bytes(1, &cs) || bc == prefix_bytes(2, &cs) || bc == prefix_bytes(3, &cs)) && bc <= bytes;
            let p = res.utf8byte_to_charpos(bc);
            match &p {
                Ok(p) => assert!(boundary && *p <= 3 && prefix_bytes(*p, &cs) == bc, "same answer as counting from the start"),
                Err(_) => assert!(!boundary, "every character boundary converts"),
            }
            kani::cover!(p.is_ok() && bc > kb, "byte offset after the milestone");
            kani::cover!(p.is_ok() && bc < kb, "byte offset before the milestone");
            kani::cover!(p.is_err() && bc > kb && bc < bytes, "inside a character after the milestone");
            core::mem::forget(p);
            core::mem::forget(res);
        }
    };
}
// the characters up to the milestone are fixed so that the map key is concrete
ms_charpos!(c12_ms_charpos_at1, 1, ['\u{e9}', kani::any(), kani::any()]);
ms_charpos!(c12_ms_charpos_at2, 2, ['a', '\u{20ac}', kani::any()]);
