// C04 — offsets against a resource: accepted exactly when 0 <= begin <= end <= textlen, resolved exactly.
// textlen and both cursors symbolic at full 64-bit width.
use super::super::*;
use super::common::*;
use crate::selector::{Offset, OffsetMode};
use crate::types::*;
use crate::text::Text;

pub(crate) fn any_cursor() -> Cursor {
    if kani::any() {
        Cursor::BeginAligned(kani::any())
    } else {
        Cursor::EndAligned(kani::any())
    }
}

/// oracle: position denoted by a cursor in a text of length len (None = denotes nothing inside 0..=len)
pub(crate) fn denote(c: &Cursor, len: usize) -> Option<usize> {
    let len = len as i128;
    let p: i128 = match *c {
        Cursor::BeginAligned(x) => x as i128,
        Cursor::EndAligned(x) => len + (x as i128),
    };
    // an end-aligned cursor is a value <= 0: a positive one lies beyond the end
    if p >= 0 && p <= len { Some(p as usize) } else { None }
}

pub(crate) fn valid_range(o: &Offset, len: usize) -> Option<(usize, usize)> {
    match (denote(&o.begin, len), denote(&o.end, len)) {
        (Some(b), Some(e)) if b <= e => Some((b, e)),
        _ => None,
    }
}

macro_rules! accept_reject {
    ($name:ident, $method:ident) => {
        #[kani::proof]
        #[kani::unwind(2)]
        #[kani::stub(alloc::fmt::format, crate::types::kani_verif::common::fmt_stub)]
        fn $name() {
            let textlen: usize = kani::any();
            let offset = Offset::new(any_cursor(), any_cursor());
            let res = bare(textlen);
            let got = res.$method(&offset);
            let want = valid_range(&offset, textlen);
            match (&got, want) {
                (Ok(ts), Some((b, e))) => {
                    assert!(ts.begin() == b && ts.end() == e, "accepted offset resolves to exactly the denoted range");
                    assert!(ts.handle().is_none(), "nothing is known on an empty resource");
                }
                (Err(_), None) => {}
                (Ok(_), None) => assert!(false, "offset outside 0 <= begin <= end <= textlen must be refused"),
                (Err(_), Some(_)) => assert!(false, "offset inside the text must be accepted"),
            }
            kani::cover!(want.is_some() && offset.mode() == OffsetMode::EndEnd, "accepted end/end offset");
            kani::cover!(want.is_some() && offset.mode() == OffsetMode::BeginEnd, "accepted begin/end offset");
            kani::cover!(want.is_none() && offset.mode() == OffsetMode::BeginBegin, "rejected begin/begin offset");
            kani::cover!(matches!(want, Some((b, e)) if b == e && e == textlen), "zero-width at the very end");
            core::mem::forget(got);
            core::mem::forget(res);
        }
    };
}
// the function AnnotationStore::selector uses to admit a TextSelector
accept_reject!(c04_res_accept_reject, textselection_by_offset);
// the function FindText::textselection uses
accept_reject!(c04_res_accept_reject_unchecked, textselection_by_offset_unchecked);

#[kani::proof]
#[kani::unwind(2)]
#[kani::stub(alloc::fmt::format, crate::types::kani_verif::common::fmt_stub)]
fn c04_res_beginaligned_cursor() {
    let textlen: usize = kani::any();
    let c = any_cursor();
    let res = bare(textlen);
    let got = res.beginaligned_cursor(&c);
    match (&got, &c) {
        (Ok(p), Cursor::BeginAligned(x)) => assert!(p == x, "begin-aligned cursor is its own position"),
        (Ok(p), Cursor::EndAligned(_)) => assert!(Some(*p) == denote(&c, textlen), "end-aligned cursor resolves to textlen + value"),
        (Err(_), Cursor::EndAligned(_)) => assert!(denote(&c, textlen).is_none(), "only cursors outside the text are refused"),
        (Err(_), Cursor::BeginAligned(_)) => assert!(false, "begin-aligned cursors resolve"),
    }
    kani::cover!(got.is_ok() && matches!(c, Cursor::EndAligned(x) if x < 0), "negative end-aligned resolves");
    kani::cover!(got.is_err(), "refused");
    kani::cover!(matches!(c, Cursor::EndAligned(x) if x == isize::MIN), "isize::MIN");
    core::mem::forget(got);
    core::mem::forget(res);
}

#[kani::proof]
#[kani::unwind(2)]
#[kani::stub(alloc::fmt::format, crate::types::kani_verif::common::fmt_stub)]
fn c04_res_known_textselection_empty() {
    let textlen: usize = kani::any();
    let offset = Offset::new(any_cursor(), any_cursor());
    let res = bare(textlen);
    let got = res.known_textselection(&offset);
    if let Ok(h) = &got {
        assert!(h.is_none(), "no selection is known on an empty resource");
    }
    kani::cover!(got.is_ok(), "lookup answered");
    kani::cover!(got.is_err(), "lookup refused");
    core::mem::forget(got);
    core::mem::forget(res);
}
