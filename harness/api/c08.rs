// C08 — helper collections behind union / intersection of query results: Handles<Annotation> behaves as a set.
// Shapes (element counts) fixed per harness, handle values symbolic; slice::sort_unstable replaced by an insertion sort.
use super::super::*;
use crate::annotation::{Annotation, AnnotationHandle};
use crate::annotationstore::AnnotationStore;
use crate::config::Config;
use crate::types::kani_verif::common::rs_new;
use crate::types::Handle;

/// stands in for <[T]>::sort_unstable (ipnsort: nested loops out of reach; even a 5-element sorting network on the
/// heap array exhausts the back end). Recording stub: notes that it was asked to sort and how many elements; the
/// array is left as it is. Contract relied on: sort_unstable sorts ascending and keeps the multiset of elements.
/// Set semantics do not depend on the order, and "flagged sorted => sorted" is restated as
/// "already in order, or sort_unstable was called on the final array".
pub(crate) static mut SORT_CALLED_WITH_LEN: Option<usize> = None;
pub(crate) fn recording_sort<T: Ord>(v: &mut [T]) {
    unsafe { SORT_CALLED_WITH_LEN = Some(v.len()); }
}

pub(crate) fn h(x: u8) -> AnnotationHandle { AnnotationHandle::new(x as usize) }

pub(crate) fn mk<'a>(vals: &[u8], sorted: bool, store: &'a AnnotationStore) -> Handles<'a, Annotation> {
    let mut v: Vec<AnnotationHandle> = Vec::with_capacity(8);
    let mut i = 0;
    while i < vals.len() { v.push(h(vals[i])); i += 1; }
    Handles::new(Cow::Owned(v), sorted, store)
}
/// collection borrowing a caller-owned (stack) array: reads during the scans stay off the heap
fn mk_borrowed<'a>(vals: &'a [AnnotationHandle], sorted: bool, store: &'a AnnotationStore) -> Handles<'a, Annotation> {
    Handles::new(Cow::Borrowed(vals), sorted, store)
}
fn has(c: &Handles<Annotation>, x: u8) -> usize {
    // number of occurrences, by linear scan over the raw array
    let mut n = 0;
    let mut i = 0;
    while i < c.len() { if c.get(i) == Some(h(x)) { n += 1; } i += 1; }
    n
}
fn is_sorted(c: &Handles<Annotation>) -> bool {
    let mut i = 1;
    while i < c.len() { if c.get(i - 1) > c.get(i) { return false; } i += 1; }
    true
}

macro_rules! union_shape {
    ($name:ident, $na:expr, $nb:expr, $sa:expr, $sb:expr) => {
        #[kani::proof]
        #[kani::unwind(10)]
        #[kani::stub(std::hash::RandomState::new, rs_new)]
        #[kani::stub(<[crate::annotation::AnnotationHandle]>::sort_unstable, recording_sort)]
        fn $name() {
            let store = AnnotationStore::new(Config::default());
            let a: [u8; 3] = kani::any();
            let b: [u8; 3] = kani::any();
            kani::assume(a[0] < 8 && a[1] < 8 && a[2] < 8 && b[0] < 8 && b[1] < 8 && b[2] < 8);
            // collections hold no duplicates; sorted ones are strictly ascending
            if $sa { kani::assume(a[0] < a[1] && a[1] < a[2]); } else { kani::assume(a[0] != a[1] && a[1] != a[2] && a[0] != a[2]); }
            if $sb { kani::assume(b[0] < b[1] && b[1] < b[2]); } else { kani::assume(b[0] != b[1] && b[1] != b[2] && b[0] != b[2]); }
            let ha = [h(a[0]), h(a[1]), h(a[2])];
            let hb = [h(b[0]), h(b[1]), h(b[2])];
            let mut ca = mk_borrowed(&ha[..$na], $sa, &store);
            let cb = mk_borrowed(&hb[..$nb], $sb, &store);
            unsafe { SORT_CALLED_WITH_LEN = None; }
            ca.union(&cb);
            let mut x: u8 = 0;
            while x < 8 {
                let mut ina = false; let mut inb = false;
                let mut i = 0;
                while i < $na { if a[i] == x { ina = true; } i += 1; }
                let mut j = 0;
                while j < $nb { if b[j] == x { inb = true; } j += 1; }
                let n = has(&ca, x);
                assert!(n == if ina || inb { 1 } else { 0 }, "union holds every member of either collection exactly once and nothing else");
                x += 1;
            }
            if ca.returns_sorted() {
                assert!(is_sorted(&ca) || unsafe { SORT_CALLED_WITH_LEN } == Some(ca.len()), "a collection flagged sorted is in order, or was handed to sort_unstable in its final form");
            }
            kani::cover!(ca.len() == $na + $nb, "disjoint collections");
            kani::cover!(ca.len() == $na, "second collection contained in the first");
            core::mem::forget(ca);
            core::mem::forget(cb);
            core::mem::forget(store);
        }
    };
}
// NOT decided: union when the receiving collection is flagged sorted (binary searches at a symbolic offset followed by
// Vec::extend: out of memory at 28 GB for every shaping tried, incl. borrowed stack arrays and a no-op sort stub)
union_shape!(c08_union_2_2_unsorted, 2, 2, false, false);
union_shape!(c08_union_3_2_unsorted, 3, 2, false, false);
// receiver out of handle order, argument sorted (what a query UNION accumulates into)
union_shape!(c08_union_3_2_unsorted_self_sorted_other, 3, 2, false, true);

macro_rules! intersection_shape {
    ($name:ident, $na:expr, $nb:expr, $sa:expr, $sb:expr) => {
        #[kani::proof]
        #[kani::unwind(10)]
        #[kani::stub(std::hash::RandomState::new, rs_new)]
        #[kani::stub(<[crate::annotation::AnnotationHandle]>::sort_unstable, recording_sort)]
        fn $name() {
            let store = AnnotationStore::new(Config::default());
            let a: [u8; 3] = kani::any();
            let b: [u8; 3] = kani::any();
            kani::assume(a[0] < 8 && a[1] < 8 && a[2] < 8 && b[0] < 8 && b[1] < 8 && b[2] < 8);
            if $sa { kani::assume(a[0] < a[1] && a[1] < a[2]); } else { kani::assume(a[0] != a[1] && a[1] != a[2] && a[0] != a[2]); }
            if $sb { kani::assume(b[0] < b[1] && b[1] < b[2]); } else { kani::assume(b[0] != b[1] && b[1] != b[2] && b[0] != b[2]); }
            let mut ca = mk(&a[..$na], $sa, &store);
            let cb = mk(&b[..$nb], $sb, &store);
            ca.intersection(&cb);
            let mut x: u8 = 0;
            while x < 8 {
                let mut ina = false; let mut inb = false;
                let mut i = 0;
                while i < $na { if a[i] == x { ina = true; } i += 1; }
                let mut j = 0;
                while j < $nb { if b[j] == x { inb = true; } j += 1; }
                assert!(has(&ca, x) == if ina && inb { 1 } else { 0 }, "intersection holds exactly the common members, once");
                x += 1;
            }
            kani::cover!(ca.len() == 0, "disjoint");
            kani::cover!(ca.len() == 1, "one common member");
            kani::cover!(ca.len() == 2, "two common members");
            core::mem::forget(ca);
            core::mem::forget(cb);
            core::mem::forget(store);
        }
    };
}
intersection_shape!(c08_intersection_2_2_sorted, 2, 2, true, true);
intersection_shape!(c08_intersection_3_2_sorted, 3, 2, true, true);
intersection_shape!(c08_intersection_2_3_sorted, 2, 3, true, true);
intersection_shape!(c08_intersection_2_2_unsorted, 2, 2, false, true);

macro_rules! contains_add {
    ($name:ident, $sorted:expr) => {
        #[kani::proof]
        #[kani::unwind(10)]
        #[kani::stub(std::hash::RandomState::new, rs_new)]
        fn $name() {
            let store = AnnotationStore::new(Config::default());
            let a: [u8; 3] = kani::any();
            kani::assume(a[0] < 8 && a[1] < 8 && a[2] < 8);
            if $sorted { kani::assume(a[0] < a[1] && a[1] < a[2]); } else { kani::assume(a[0] != a[1] && a[1] != a[2] && a[0] != a[2]); }
            let mut c = mk(&a, $sorted, &store);
            let x: u8 = kani::any();
            kani::assume(x < 8);
            let present = a[0] == x || a[1] == x || a[2] == x;
            assert!(c.contains(&h(x)) == present, "contains agrees with a linear scan");
            match c.position(&h(x)) {
                Some(p) => assert!(present && c.get(p) == Some(h(x)), "position points at the element"),
                None => assert!(!present, "position finds every element"),
            }
            c.add(h(x));
            assert!(has(&c, x) == 1 && c.len() == if present { 3 } else { 4 }, "add inserts a new element once and an existing one not at all");
            if $sorted { assert!(is_sorted(&c), "add keeps a sorted collection sorted"); }
            kani::cover!(present, "already present");
            kani::cover!(!present && x < a[0], "new smallest element");
            core::mem::forget(c);
            core::mem::forget(store);
        }
    };
}
contains_add!(c08_contains_add_sorted, true);
contains_add!(c08_contains_add_unsorted, false);

// concrete witnesses (NO symbolic input; ordinary tests run through the same tool chain) for the path the symbolic
// harnesses cannot finish: union into a collection flagged sorted
macro_rules! union_witness {
    ($name:ident, $a:expr, $b:expr, $want:expr) => {
        #[kani::proof]
        #[kani::unwind(10)]
        #[kani::stub(std::hash::RandomState::new, rs_new)]
        #[kani::stub(<[crate::annotation::AnnotationHandle]>::sort_unstable, recording_sort)]
        fn $name() {
            let store = AnnotationStore::new(Config::default());
            let a: &[u8] = &$a;
            let b: &[u8] = &$b;
            let want: &[u8] = &$want;
            let mut ca = mk(a, true, &store);
            let cb = mk(b, true, &store);
            unsafe { SORT_CALLED_WITH_LEN = None; }
            ca.union(&cb);
            assert!(ca.len() == want.len(), "sorted union holds every member once");
            let mut i = 0;
            while i < want.len() { assert!(has(&ca, want[i]) == 1, "member present exactly once"); i += 1; }
            assert!(is_sorted(&ca) || unsafe { SORT_CALLED_WITH_LEN } == Some(ca.len()), "in order, or handed to sort_unstable in its final form");
            kani::cover!(true, "reached");
            core::mem::forget(ca);
            core::mem::forget(cb);
            core::mem::forget(store);
        }
    };
}
union_witness!(c08_witness_union_sorted_overlap, [1, 5], [3, 5], [1, 3, 5]);
union_witness!(c08_witness_union_sorted_interleaved, [2, 4, 6], [1, 4, 7], [1, 2, 4, 6, 7]);
union_witness!(c08_witness_union_sorted_subset, [1, 2, 3], [2, 3], [1, 2, 3]);

// concrete witnesses (NO symbolic input) for LIMIT: LimitIter over four items against the slice it denotes
macro_rules! limit_witness {
    ($name:ident, $begin:expr, $end:expr, $want:expr) => {
        #[kani::proof]
        #[kani::unwind(8)]
        fn $name() {
            let items: [u8; 4] = [10, 20, 30, 40];
            let want: &[u8] = &$want;
            let mut it = LimitIter { inner: items.iter().copied(), cursor: 0, begin: $begin, end: $end, emptybuffer: false, buffer: VecDeque::with_capacity(8) };
            let mut i = 0;
            while i < want.len() {
                assert!(it.next() == Some(want[i]), "LIMIT yields the items of the corresponding slice, in order");
                i += 1;
            }
            assert!(it.next().is_none(), "and nothing after them");
            kani::cover!(true, "reached");
            core::mem::forget(it);
        }
    };
}
limit_witness!(c08_witness_limit_first2, 0, 2, [10, 20]);
limit_witness!(c08_witness_limit_1_to_minus1, 1, -1, [20, 30]);
limit_witness!(c08_witness_limit_0_to_minus1, 0, -1, [10, 20, 30]);
limit_witness!(c08_witness_limit_last2, -2, 0, [30, 40]);
limit_witness!(c08_witness_limit_neg_neg, -3, -1, [20, 30]);
limit_witness!(c08_witness_limit_neg_neg_empty, -1, -2, []);

// (a symbolic version - begin and end in -6..=6 over 4 items, buffer pre-sized - gave no verdict within an hour)
