// C04 — offsets relative to another selection, and the offsets the library reports back.
use super::super::*;
use super::common::*;
use crate::resources::kani_verif::c04::{any_cursor, denote, valid_range};
use crate::types::kani_verif::common::fmt_stub;

/// parent selection with end <= isize::MAX (texts longer than isize::MAX code points cannot exist in memory)
fn any_parent() -> TextSelection {
    let p = any_ts();
    kani::assume(p.end <= isize::MAX as usize);
    p
}

// ---- relative resolution: accepted iff inside the parent's length, exact
#[kani::proof]
#[kani::unwind(2)]
#[kani::stub(alloc::fmt::format, fmt_stub)]
fn c04_rel_accept_reject() {
    let parent = any_parent();
    let offset = Offset::new(any_cursor(), any_cursor());
    let plen = parent.end - parent.begin;
    let got = parent.textselection_by_offset(&offset);
    let want = valid_range(&offset, plen);
    match (&got, want) {
        (Ok(ts), Some((b, e))) => {
            assert!(ts.begin() == parent.begin + b && ts.end() == parent.begin + e, "relative offset resolves to exactly the denoted absolute range");
            assert!(ts.begin() >= parent.begin && ts.end() <= parent.end && ts.begin() <= ts.end(), "result lies inside the parent");
        }
        (Err(_), None) => {}
        (Ok(_), None) => assert!(false, "relative offset outside 0 <= begin <= end <= parent length must be refused"),
        (Err(_), Some(_)) => assert!(false, "relative offset inside the parent must be accepted"),
    }
    kani::cover!(want.is_some() && offset.mode() == OffsetMode::EndEnd, "accepted end/end");
    kani::cover!(want.is_some() && offset.mode() == OffsetMode::EndBegin, "accepted end/begin");
    kani::cover!(want.is_none() && offset.mode() == OffsetMode::BeginBegin, "rejected begin/begin");
    kani::cover!(want.is_some() && plen == 0, "zero-width parent");
    core::mem::forget(got);
}

#[kani::proof]
#[kani::unwind(2)]
#[kani::stub(alloc::fmt::format, fmt_stub)]
fn c04_rel_absolute_offset() {
    let parent = any_parent();
    let offset = Offset::new(any_cursor(), any_cursor());
    let plen = parent.end - parent.begin;
    let want = valid_range(&offset, plen);
    let got = parent.absolute_offset(&offset);
    if let Some((b, e)) = want {
        match &got {
            Ok(o) => assert!(o.begin == Cursor::BeginAligned(parent.begin + b) && o.end == Cursor::BeginAligned(parent.begin + e),
                             "absolute offset of a valid relative offset is exact and begin-aligned"),
            Err(_) => assert!(false, "a valid relative offset has an absolute offset"),
        }
    } else if let Ok(o) = &got {
        // whatever is answered for an invalid relative offset must not be an end-aligned cursor
        assert!(matches!(o.begin, Cursor::BeginAligned(_)) && matches!(o.end, Cursor::BeginAligned(_)), "absolute offsets are begin-aligned");
    }
    kani::cover!(want.is_some() && got.is_ok(), "valid");
    kani::cover!(got.is_err(), "refused");
    core::mem::forget(got);
}

// ---- reporting: relative_offset in each of the four modes
macro_rules! report {
    ($name:ident, $mode:expr) => {
        #[kani::proof]
        #[kani::unwind(2)]
        #[kani::stub(alloc::fmt::format, fmt_stub)]
        fn $name() {
            let ts = any_parent();
            let container = any_parent();
            let embedded = container.begin <= ts.begin && ts.end <= container.end;
            let got = ts.relative_offset(&container, $mode);
            assert!(got.is_some() == embedded, "a relative offset is reported exactly when the selection lies inside the container");
            if let Some(off) = &got {
                assert!(off.mode() == $mode, "reported in the requested alignment");
                if let Cursor::EndAligned(x) = off.begin { assert!(x <= 0, "reported end-aligned begin cursor is never positive"); }
                if let Cursor::EndAligned(x) = off.end { assert!(x <= 0, "reported end-aligned end cursor is never positive"); }
                let back = container.textselection_by_offset(off);
                match &back {
                    Ok(t) => assert!(t.begin() == ts.begin && t.end() == ts.end, "reported offset re-resolves to the same absolute range"),
                    Err(_) => assert!(false, "reported offset must re-resolve"),
                }
                core::mem::forget(back);
            }
            kani::cover!(embedded && ts.begin > container.begin && ts.end < container.end, "strictly inside");
            kani::cover!(embedded && ts.begin == ts.end, "zero-width inside");
            kani::cover!(!embedded && ts.end < container.begin, "entirely before the container");
            kani::cover!(!embedded && ts.begin > container.end, "entirely after the container");
        }
    };
}
report!(c04_report_beginbegin, OffsetMode::BeginBegin);
report!(c04_report_beginend, OffsetMode::BeginEnd);
report!(c04_report_endend, OffsetMode::EndEnd);
report!(c04_report_endbegin, OffsetMode::EndBegin);

// the helpers on their own never overflow, whatever the geometry
#[kani::proof]
#[kani::unwind(2)]
fn c04_report_helpers_total() {
    let ts = any_parent();
    let container = any_parent();
    let a = ts.relative_begin(&container);
    let b = ts.relative_end(&container);
    let c = ts.relative_begin_endaligned(&container);
    let d = ts.relative_end_endaligned(&container);
    if let Some(a) = a { assert!(a == ts.begin - container.begin, "relative begin"); }
    if let Some(b) = b { assert!(ts.end >= container.begin && b == ts.end - container.begin, "relative end is measured from the container's begin"); }
    if let Some(c) = c { assert!(c <= 0, "end-aligned begin is never positive"); }
    if let Some(d) = d { assert!(d <= 0, "end-aligned end is never positive"); }
    kani::cover!(ts.end < container.begin, "selection before container");
    kani::cover!(a.is_some() && b.is_some(), "inside");
}

// ---- nesting: two levels of relative resolution compose
#[kani::proof]
#[kani::unwind(2)]
#[kani::stub(alloc::fmt::format, fmt_stub)]
fn c04_rel_nesting_depth2() {
    let g = any_parent();
    let o1 = Offset::new(any_cursor(), any_cursor());
    let o2 = Offset::new(any_cursor(), any_cursor());
    let p = g.textselection_by_offset(&o1);
    if let Ok(p) = &p {
        let c = p.textselection_by_offset(&o2);
        if let Ok(c) = &c {
            // oracle: resolve o1 in g, then o2 in that
            let (b1, e1) = valid_range(&o1, g.end - g.begin).unwrap();
            let (b2, e2) = valid_range(&o2, e1 - b1).unwrap();
            assert!(c.begin() == g.begin + b1 + b2 && c.end() == g.begin + b1 + e2, "nested relative offsets compose exactly");
            assert!(c.begin() >= g.begin && c.end() <= g.end, "grandchild lies inside the grandparent");
            kani::cover!(o2.mode() == OffsetMode::EndEnd && o1.mode() == OffsetMode::BeginEnd, "mixed alignments at both levels");
        }
        core::mem::forget(c);
    }
    kani::cover!(p.is_ok(), "level 1 accepted");
    core::mem::forget(p);
}
