// C06 — the two obligations that need a real position index (no stub), on the smallest index there is:
// one known ZERO-WIDTH selection [5,5) (handle 0) in a text of 8 code points, i.e. a single key written directly
// into the B-tree (two keys already exhaust the back end at 26 GB).
//   I (iterator contract): TextSelectionIter walks forwards by begin and backwards by end, window symbolic.
//   F (filter soundness): one step of next_textselection() over a window containing the selection returns it
//     exactly when refset.test() holds and it is not a member of the reference set.
use super::super::*;
use super::common::*;
use crate::resources::kani_verif::common::with_one_selection;

const TEXTLEN: usize = 8;

#[kani::proof]
#[kani::unwind(4)]
fn c06_i_iter_forward() {
    let res = with_one_selection(TEXTLEN, 5, 5);
    let lo: usize = kani::any();
    let hi: usize = kani::any();
    kani::assume(lo <= hi && hi <= TEXTLEN + 1);
    let mut it = res.range(lo, hi);
    let first = it.next();
    match first {
        Some(t) => assert!(lo <= 5 && 5 < hi && t.begin() == 5 && t.end() == 5, "forward walk yields a selection whose BEGIN lies in the window"),
        None => assert!(!(lo <= 5 && 5 < hi), "forward walk yields every selection beginning in the window"),
    }
    let second = it.next();
    assert!(second.is_none(), "and yields it once");
    kani::cover!(first.is_some(), "yielded");
    kani::cover!(first.is_none() && hi == 5, "window ends just before the selection");
    core::mem::forget(it);
    core::mem::forget(res);
}

#[kani::proof]
#[kani::unwind(4)]
fn c06_i_iter_backward() {
    let res = with_one_selection(TEXTLEN, 5, 5);
    let lo: usize = kani::any();
    let hi: usize = kani::any();
    kani::assume(lo <= hi && hi <= TEXTLEN + 1);
    let mut it = res.range(lo, hi);
    let first = it.next_back();
    match first {
        Some(t) => assert!(lo <= 5 && 5 < hi && t.begin() == 5 && t.end() == 5, "backward walk yields a selection whose END lies in the window"),
        None => assert!(!(lo <= 5 && 5 < hi), "backward walk yields every selection ending in the window"),
    }
    let second = it.next_back();
    assert!(second.is_none(), "and yields it once");
    kani::cover!(first.is_some(), "yielded");
    kani::cover!(first.is_none() && lo == 6, "window starts just after the selection");
    core::mem::forget(it);
    core::mem::forget(res);
}

macro_rules! filter_step {
    ($name:ident, |$all:ident, $negate:ident, $limit:ident| $op:expr) => {
        #[kani::proof]
        #[kani::unwind(4)]
        fn $name() {
            let res = with_one_selection(TEXTLEN, 5, 5);
            let t = TextSelection { intid: Some(TextSelectionHandle(0)), begin: 5, end: 5 };
            let rb: usize = kani::any();
            let re: usize = kani::any();
            kani::assume(rb <= re && re <= TEXTLEN);
            // the reference is the known selection itself (handle 0) or another one (handle 1)
            let rh: u32 = if kani::any() { 0 } else { 1 };
            let r = TextSelection { intid: Some(TextSelectionHandle(rh)), begin: rb, end: re };
            let $all: bool = kani::any();
            let $negate: bool = kani::any();
            let lim: u8 = kani::any();
            let $limit: Option<usize> = if kani::any() { Some(lim as usize) } else { None };
            let op: TextSelectionOperator = $op;
            let refset = set1(r);
            let want = refset.test(&op, &t, &res) && rh != 0;
            let mut textseliters = Vec::with_capacity(1);
            textseliters.push((res.range(0, TEXTLEN + 1), true));
            let mut it = FindTextSelectionsIter {
                resource: &res,
                operator: op,
                refset,
                textseliter_index: 0,
                textseliters,
                buffer: VecDeque::new(),
                drain_buffer: false,
            };
            let got = it.next_textselection();
            assert!(got.is_some() == want, "a walked selection is returned exactly when the relation test holds and it is not the reference itself");
            if let Some(h) = got { assert!(h == TextSelectionHandle(0), "the returned handle is the walked selection"); }
            kani::cover!(want, "returned");
            kani::cover!(!want && rh == 0, "the reference itself is walked and not returned");
            kani::cover!(!want && rh != 0, "unrelated selection is walked and not returned");
            core::mem::forget(it);
            core::mem::forget(res);
        }
    };
}
filter_step!(c06_f_overlaps, |all, negate, limit| TextSelectionOperator::Overlaps { all, negate });
filter_step!(c06_f_embedded, |all, negate, limit| TextSelectionOperator::Embedded { all, negate, limit });
filter_step!(c06_f_before, |all, negate, limit| TextSelectionOperator::Before { all, negate, limit });
filter_step!(c06_f_samerange, |all, negate, limit| TextSelectionOperator::SameRange { all, negate });

// NOT decided: the BACKWARD step (walk the whole window, push_front into the VecDeque buffer, drain). A harness analogous
// to filter_step! with a backward window ran out of memory at 26 GB (VecDeque).
