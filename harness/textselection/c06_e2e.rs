// C06 — end to end on a real position index (no stub): one known selection at a fixed place, the reference
// selection symbolic over the whole (short) text; the real iterator is run to exhaustion.
// Decides filter soundness (returned <=> relation holds and it is not the reference), the buffer/drain logic,
// the B-tree walk for this shape, and "each once".
use super::super::*;
use super::common::*;
use crate::resources::kani_verif::common::with_one_selection;

const TEXTLEN: usize = 8;

macro_rules! e2e {
    ($name:ident, ($tb:expr, $te:expr), |$all:ident, $negate:ident, $limit:ident| $op:expr) => {
        #[kani::proof]
        #[kani::unwind(6)]
        fn $name() {
            let res = with_one_selection(TEXTLEN, $tb, $te);
            let t = TextSelection { intid: Some(TextSelectionHandle(0)), begin: $tb, end: $te };
            let rb: usize = kani::any();
            let re: usize = kani::any();
            kani::assume(rb <= re && re <= TEXTLEN);
            let r = TextSelection { intid: Some(TextSelectionHandle(1)), begin: rb, end: re };
            let $all: bool = kani::any();
            let $negate: bool = kani::any();
            let lim: u8 = kani::any();
            let $limit: Option<usize> = if kani::any() { Some(lim as usize) } else { None };
            let op: TextSelectionOperator = $op;
            let refset = set1(r);
            let want = refset.test(&op, &t, &res);
            let mut it = res.textselections_by_operator(op, set1(r));
            let first = it.next();
            let second = it.next();
            assert!(second.is_none(), "each once: the only known selection is returned at most once");
            assert!(first.is_some() == want, "returned exactly when the relation test holds");
            if let Some(h) = first { assert!(h == TextSelectionHandle(0), "the returned handle is the known selection"); }
            kani::cover!(want && !$negate, "found");
            kani::cover!(!want && !$negate, "not related, not found");
            kani::cover!(want && rb > TEXTLEN / 2, "found with the reference in the second half");
            core::mem::forget(it);
            core::mem::forget(refset);
            core::mem::forget(res);
        }
    };
}

// shapes of the known selection: inner [2,5), whole text [0,8), zero-width at the very end [8,8), tail [5,8)
e2e!(c06_e2e_overlaps_inner, (2, 5), |all, negate, limit| TextSelectionOperator::Overlaps { all, negate });
e2e!(c06_e2e_overlaps_tail, (5, 8), |all, negate, limit| TextSelectionOperator::Overlaps { all, negate });
e2e!(c06_e2e_embeds_inner, (2, 5), |all, negate, limit| TextSelectionOperator::Embeds { all, negate });
e2e!(c06_e2e_embeds_endzero, (8, 8), |all, negate, limit| TextSelectionOperator::Embeds { all, negate });
e2e!(c06_e2e_embedded_whole, (0, 8), |all, negate, limit| TextSelectionOperator::Embedded { all, negate, limit });
e2e!(c06_e2e_embedded_inner, (2, 5), |all, negate, limit| TextSelectionOperator::Embedded { all, negate, limit });
e2e!(c06_e2e_before_tail, (5, 8), |all, negate, limit| TextSelectionOperator::Before { all, negate, limit });
e2e!(c06_e2e_before_endzero, (8, 8), |all, negate, limit| TextSelectionOperator::Before { all, negate, limit });
e2e!(c06_e2e_after_inner, (2, 5), |all, negate, limit| TextSelectionOperator::After { all, negate, limit });
e2e!(c06_e2e_precedes_tail, (5, 8), |all, negate, limit| TextSelectionOperator::Precedes { all, negate, allow_whitespace: false });
e2e!(c06_e2e_succeeds_inner, (2, 5), |all, negate, limit| TextSelectionOperator::Succeeds { all, negate, allow_whitespace: false });
e2e!(c06_e2e_samebegin_inner, (2, 5), |all, negate, limit| TextSelectionOperator::SameBegin { all, negate });
e2e!(c06_e2e_sameend_tail, (5, 8), |all, negate, limit| TextSelectionOperator::SameEnd { all, negate });
e2e!(c06_e2e_samerange_inner, (2, 5), |all, negate, limit| TextSelectionOperator::SameRange { all, negate });
e2e!(c06_e2e_equals_inner, (2, 5), |all, negate, limit| TextSelectionOperator::Equals { all, negate });
