// C06 — related-text search: window completeness (W).
// For every text length, reference selection, candidate selection and numeric modifier: if the relation holds
// between reference and candidate, the candidate's key (begin for a forward window, end for a backward one)
// lies in one of the windows of the position index that init_textseliters() asks for — and in at most one.
use super::super::*;
use super::common::*;
use crate::resources::kani_verif::common::bare;
use crate::resources::kani_verif::c06::{range_stub, MAXWIN, NWIN, WINDOWS};

fn mk_iter<'a>(res: &'a TextResource, op: TextSelectionOperator, refset: TextSelectionSet) -> FindTextSelectionsIter<'a> {
    FindTextSelectionsIter {
        resource: res,
        operator: op,
        refset,
        textseliter_index: 0,
        textseliters: Vec::with_capacity(2),
        buffer: VecDeque::new(),
        drain_buffer: false,
    }
}

fn ts_in(textlen: usize, handle: u32) -> TextSelection {
    let begin: usize = kani::any();
    let end: usize = kani::any();
    kani::assume(begin <= end && end <= textlen);
    TextSelection { intid: Some(TextSelectionHandle(handle)), begin, end }
}

/// returns (number of windows whose range contains the candidate's key, all windows well-formed)
fn hits(it: &FindTextSelectionsIter, t: &TextSelection) -> (usize, bool) {
    let n = unsafe { NWIN };
    let mut h = 0;
    let mut wf = true;
    let mut i = 0;
    while i < n && i < MAXWIN {
        let (lo, hi) = unsafe { WINDOWS[i] };
        let forward = it.textseliters[i].1;
        let key = if forward { t.begin } else { t.end };
        if lo > hi { wf = false; }
        if lo <= key && key < hi { h += 1; }
        i += 1;
    }
    (h, wf)
}

macro_rules! window1 {
    ($(#[$m:meta])* $name:ident, gap = $gap:expr, |$all:ident, $limit:ident| $op:expr) => {
        #[kani::proof]
        #[kani::unwind(6)]
        #[kani::stub(TextResource::range, range_stub)]
        $(#[$m])*
        fn $name() {
            unsafe { GAP_IS_WS = $gap; NWIN = 0; }
            let textlen: usize = kani::any();
            kani::assume(textlen <= isize::MAX as usize);
            let r = ts_in(textlen, 0);
            let t = ts_in(textlen, 1);
            let $all: bool = kani::any();
            let $limit: Option<usize> = kani::any();
            let op: TextSelectionOperator = $op;
            let res = bare(textlen);
            let refset = set1(r);
            let related = refset.test(&op, &t, &res) && !refset.has_handle(t.handle().unwrap());
            let mut it = mk_iter(&res, op, refset);
            it.init_textseliters();
            let n = unsafe { NWIN };
            assert!(n == it.textseliters.len() && n >= 1 && n <= MAXWIN, "one recorded window per sub-iterator");
            let (h, wf) = hits(&it, &t);
            assert!(wf, "every window is a valid range (BTreeMap::range panics on start > end)");
            if related {
                assert!(h >= 1, "completeness: a related selection lies in a window the search walks");
            }
            assert!(h <= 1, "each once: no selection lies in two windows");
            kani::cover!(related && r.begin > textlen / 2, "related, reference in the second half of the text");
            kani::cover!(related && r.begin <= textlen / 2, "related, reference in the first half of the text");
            kani::cover!(related && t.end == textlen, "related selection touching the very end of the text");
            kani::cover!(related && t.begin == t.end, "related zero-width selection");
            kani::cover!(!related, "unrelated selection");
            core::mem::forget(it);
            core::mem::forget(res);
        }
    };
    ($name:ident, |$all:ident, $limit:ident| $op:expr) => {
        window1!($name, gap = false, |$all, $limit| $op);
    };
}

window1!(c06_w1_overlaps, |all, limit| TextSelectionOperator::Overlaps { all, negate: false });
window1!(c06_w1_embeds, |all, limit| TextSelectionOperator::Embeds { all, negate: false });
window1!(c06_w1_embedded, |all, limit| TextSelectionOperator::Embedded { all, negate: false, limit: None });
window1!(c06_w1_embedded_limit, |all, limit| TextSelectionOperator::Embedded { all, negate: false, limit });
window1!(c06_w1_before, |all, limit| TextSelectionOperator::Before { all, negate: false, limit: None });
window1!(c06_w1_before_limit, |all, limit| TextSelectionOperator::Before { all, negate: false, limit });
window1!(c06_w1_after, |all, limit| TextSelectionOperator::After { all, negate: false, limit: None });
window1!(c06_w1_after_limit, |all, limit| TextSelectionOperator::After { all, negate: false, limit });
window1!(c06_w1_precedes, |all, limit| TextSelectionOperator::Precedes { all, negate: false, allow_whitespace: false });
window1!(c06_w1_succeeds, |all, limit| TextSelectionOperator::Succeeds { all, negate: false, allow_whitespace: false });
window1!(#[kani::stub(<TextResource as Text>::text_by_offset, gap_stub)] c06_w1_precedes_ws_gapws, gap = true, |all, limit| TextSelectionOperator::Precedes { all, negate: false, allow_whitespace: true });
window1!(#[kani::stub(<TextResource as Text>::text_by_offset, gap_stub)] c06_w1_precedes_ws_gaptext, gap = false, |all, limit| TextSelectionOperator::Precedes { all, negate: false, allow_whitespace: true });
window1!(#[kani::stub(<TextResource as Text>::text_by_offset, gap_stub)] c06_w1_succeeds_ws_gapws, gap = true, |all, limit| TextSelectionOperator::Succeeds { all, negate: false, allow_whitespace: true });
window1!(#[kani::stub(<TextResource as Text>::text_by_offset, gap_stub)] c06_w1_succeeds_ws_gaptext, gap = false, |all, limit| TextSelectionOperator::Succeeds { all, negate: false, allow_whitespace: true });
window1!(c06_w1_samebegin, |all, limit| TextSelectionOperator::SameBegin { all, negate: false });
window1!(c06_w1_sameend, |all, limit| TextSelectionOperator::SameEnd { all, negate: false });
window1!(c06_w1_samerange, |all, limit| TextSelectionOperator::SameRange { all, negate: false });
window1!(c06_w1_inset, |all, limit| TextSelectionOperator::InSet { all, negate: false });
window1!(c06_w1_equals_all, |all, limit| TextSelectionOperator::Equals { all: true, negate: false });
// negated operators
window1!(c06_w1_neg_equals, |all, limit| TextSelectionOperator::Equals { all, negate: true });
window1!(c06_w1_neg_overlaps, |all, limit| TextSelectionOperator::Overlaps { all, negate: true });
window1!(c06_w1_neg_embeds, |all, limit| TextSelectionOperator::Embeds { all, negate: true });
window1!(c06_w1_neg_embedded, |all, limit| TextSelectionOperator::Embedded { all, negate: true, limit });
window1!(c06_w1_neg_before, |all, limit| TextSelectionOperator::Before { all, negate: true, limit });
window1!(c06_w1_neg_after, |all, limit| TextSelectionOperator::After { all, negate: true, limit });
window1!(c06_w1_neg_precedes, |all, limit| TextSelectionOperator::Precedes { all, negate: true, allow_whitespace: false });
window1!(c06_w1_neg_succeeds, |all, limit| TextSelectionOperator::Succeeds { all, negate: true, allow_whitespace: false });
window1!(c06_w1_neg_samebegin, |all, limit| TextSelectionOperator::SameBegin { all, negate: true });
window1!(c06_w1_neg_sameend, |all, limit| TextSelectionOperator::SameEnd { all, negate: true });
window1!(c06_w1_neg_samerange, |all, limit| TextSelectionOperator::SameRange { all, negate: true });

// ------------------------------------------------------------------ reference sets of two selections
macro_rules! window2 {
    ($(#[$m:meta])* $name:ident, gap = $gap:expr, |$all:ident, $limit:ident| $op:expr) => {
        #[kani::proof]
        #[kani::unwind(6)]
        #[kani::stub(TextResource::range, range_stub)]
        $(#[$m])*
        fn $name() {
            unsafe { GAP_IS_WS = $gap; NWIN = 0; }
            let textlen: usize = kani::any();
            kani::assume(textlen <= isize::MAX as usize);
            let r1 = ts_in(textlen, 0);
            let r2 = ts_in(textlen, 1);
            let t = ts_in(textlen, 2);
            let $all: bool = kani::any();
            let $limit: Option<usize> = kani::any();
            let op: TextSelectionOperator = $op;
            let res = bare(textlen);
            let refset = set2(r1, r2);
            let related = refset.test(&op, &t, &res) && !refset.has_handle(t.handle().unwrap());
            let mut it = mk_iter(&res, op, refset);
            it.init_textseliters();
            let n = unsafe { NWIN };
            assert!(n == it.textseliters.len() && n >= 1 && n <= MAXWIN, "one recorded window per sub-iterator");
            let (h, wf) = hits(&it, &t);
            assert!(wf, "every window is a valid range (BTreeMap::range panics on start > end)");
            if related {
                assert!(h >= 1, "completeness: a related selection lies in a window the search walks");
            }
            assert!(h <= 1, "each once: no selection lies in two windows");
            kani::cover!(related && r1.begin > textlen / 2, "related, reference in the second half of the text");
            kani::cover!(related && r1.begin < r2.begin && r2.begin < r1.end, "related, overlapping reference members");
            kani::cover!(related && r1.end <= r2.begin, "related, non-overlapping reference members");
            kani::cover!(!related, "unrelated selection");
            core::mem::forget(it);
            core::mem::forget(res);
        }
    };
    ($name:ident, |$all:ident, $limit:ident| $op:expr) => {
        window2!($name, gap = false, |$all, $limit| $op);
    };
}
window2!(c06_w2_overlaps, |all, limit| TextSelectionOperator::Overlaps { all, negate: false });
window2!(c06_w2_embeds, |all, limit| TextSelectionOperator::Embeds { all, negate: false });
window2!(c06_w2_embedded, |all, limit| TextSelectionOperator::Embedded { all, negate: false, limit });
window2!(c06_w2_before, |all, limit| TextSelectionOperator::Before { all, negate: false, limit });
window2!(c06_w2_after, |all, limit| TextSelectionOperator::After { all, negate: false, limit });
window2!(c06_w2_precedes, |all, limit| TextSelectionOperator::Precedes { all, negate: false, allow_whitespace: false });
window2!(c06_w2_succeeds, |all, limit| TextSelectionOperator::Succeeds { all, negate: false, allow_whitespace: false });
window2!(#[kani::stub(<TextResource as Text>::text_by_offset, gap_stub)] c06_w2_precedes_ws_gapws, gap = true, |all, limit| TextSelectionOperator::Precedes { all, negate: false, allow_whitespace: true });
window2!(#[kani::stub(<TextResource as Text>::text_by_offset, gap_stub)] c06_w2_succeeds_ws_gapws, gap = true, |all, limit| TextSelectionOperator::Succeeds { all, negate: false, allow_whitespace: true });
window2!(c06_w2_samebegin, |all, limit| TextSelectionOperator::SameBegin { all, negate: false });
window2!(c06_w2_sameend, |all, limit| TextSelectionOperator::SameEnd { all, negate: false });
window2!(c06_w2_samerange, |all, limit| TextSelectionOperator::SameRange { all, negate: false });
window2!(c06_w2_neg_overlaps, |all, limit| TextSelectionOperator::Overlaps { all, negate: true });
window2!(c06_w2_neg_embedded, |all, limit| TextSelectionOperator::Embedded { all, negate: true, limit });

// TextResource::iter() - the double-ended iterator over ALL known selections (used by the API and by every operator
// without a dedicated window): its window must contain the begin of every selection (forward walk) and the end of
// every selection (backward walk), wherever in the text they lie
#[kani::proof]
#[kani::unwind(4)]
#[kani::stub(TextResource::range, range_stub)]
fn c06_w_iter_covers_all() {
    unsafe { NWIN = 0; }
    let textlen: usize = kani::any();
    kani::assume(textlen <= isize::MAX as usize);
    let t = ts_in(textlen, 0);
    let res = bare(textlen);
    let it = res.iter();
    assert!(unsafe { NWIN } == 1, "iter() is one window over the position index");
    let (lo, hi) = unsafe { WINDOWS[0] };
    assert!(lo <= hi, "valid range");
    assert!(lo <= t.begin && t.begin < hi, "forward: every selection begins inside the window");
    assert!(lo <= t.end && t.end < hi, "backward: every selection ends inside the window");
    kani::cover!(t.end == textlen && t.begin < t.end, "selection ending at the very end of the text");
    kani::cover!(t.begin == textlen, "zero-width selection at the very end of the text");
    core::mem::forget(it);
    core::mem::forget(res);
}
