// C13 — text-selection relations have their documented algebraic meaning.
// All begin/end/limit values are symbolic at full 64-bit width; one law per harness.
use super::super::*;
use super::common::*;
use crate::resources::kani_verif::common::bare;

fn fin(r: TextResource) {
    core::mem::forget(r);
}

// ------------------------------------------------------------------ pair level: definition
// got == definition, for negate=false and every value of `all`
macro_rules! pair_def {
    ($name:ident, |$all:ident, $limit:ident| $op:expr, |$a:ident, $b:ident| $def:expr) => {
        #[kani::proof]
        #[kani::unwind(3)]
        fn $name() {
            let $a = any_ts();
            let $b = any_ts();
            let $all: bool = kani::any();
            let $limit: Option<usize> = kani::any();
            let op: TextSelectionOperator = $op;
            let res = bare(kani::any());
            let got = $a.test(&op, &$b, &res);
            let want: bool = $def;
            assert!(got == want, "relation equals its interval definition");
            kani::cover!(want, "relation holds");
            kani::cover!(!want, "relation does not hold");
            kani::cover!($a.begin == $a.end && want, "zero-width subject in relation");
            fin(res);
        }
    };
}

pair_def!(c13_pair_def_overlaps, |all, limit| TextSelectionOperator::Overlaps { all, negate: false }, |a, b| d_overlaps(&a, &b));
pair_def!(c13_pair_def_embeds, |all, limit| TextSelectionOperator::Embeds { all, negate: false }, |a, b| d_embeds(&a, &b));
pair_def!(c13_pair_def_embedded, |all, limit| TextSelectionOperator::Embedded { all, negate: false, limit }, |a, b| d_embedded(&a, &b, limit));
pair_def!(c13_pair_def_before, |all, limit| TextSelectionOperator::Before { all, negate: false, limit }, |a, b| d_before(&a, &b, limit));
pair_def!(c13_pair_def_after, |all, limit| TextSelectionOperator::After { all, negate: false, limit }, |a, b| d_after(&a, &b, limit));
pair_def!(c13_pair_def_precedes, |all, limit| TextSelectionOperator::Precedes { all, negate: false, allow_whitespace: false }, |a, b| d_precedes(&a, &b));
pair_def!(c13_pair_def_succeeds, |all, limit| TextSelectionOperator::Succeeds { all, negate: false, allow_whitespace: false }, |a, b| d_succeeds(&a, &b));
pair_def!(c13_pair_def_samebegin, |all, limit| TextSelectionOperator::SameBegin { all, negate: false }, |a, b| d_samebegin(&a, &b));
pair_def!(c13_pair_def_sameend, |all, limit| TextSelectionOperator::SameEnd { all, negate: false }, |a, b| d_sameend(&a, &b));
pair_def!(c13_pair_def_samerange, |all, limit| TextSelectionOperator::SameRange { all, negate: false }, |a, b| d_equals(&a, &b));
// Equals / InSet: "cover the exact same" range. Decided on the range alone (handles are bookkeeping,
// a bound and an unbound selection of one range select the same text).
pair_def!(c13_pair_def_equals, |all, limit| TextSelectionOperator::Equals { all, negate: false }, |a, b| d_equals(&a, &b));
pair_def!(c13_pair_def_inset, |all, limit| TextSelectionOperator::InSet { all, negate: false }, |a, b| d_equals(&a, &b));

// ------------------------------------------------------------------ whitespace variants
// `resource.text_by_offset(gap)` (string slicing + error construction, out of reach) is replaced by a stub
// that records the gap it was asked for and answers " " or "x" according to a per-harness symbolic flag.
// What is decided: the arithmetic around the lookup (no underflow), that the lookup is made for exactly
// the gap between the two selections, and that the result is "adjacent, or separated by whitespace only".
/// adjacent, or separated by at most WHITESPACE_LIMIT code points that are all whitespace
fn d_precedes_ws(a_end: usize, b_begin: usize, ws: bool) -> bool { a_end <= b_begin && (a_end == b_begin || (ws && b_begin - a_end <= WHITESPACE_LIMIT)) }

macro_rules! pair_ws {
    ($name:ident, |$all:ident| $op:expr, |$a:ident, $b:ident, $ws:ident| $def:expr, |$ga:ident, $gb:ident| $gap:expr) => {
        #[kani::proof]
        #[kani::unwind(4)]
        #[kani::stub(<TextResource as Text>::text_by_offset, gap_stub)]
        fn $name() {
            let $a = any_ts();
            let $b = any_ts();
            let $all: bool = kani::any();
            let $ws: bool = kani::any();
            unsafe { GAP_IS_WS = $ws; GAP_ASKED = None; }
            let op: TextSelectionOperator = $op;
            let res = bare(kani::any());
            let got = $a.test(&op, &$b, &res);
            let want: bool = $def;
            assert!(got == want, "whitespace variant: adjacent, or separated by whitespace only");
            if let Some(($ga, $gb)) = unsafe { GAP_ASKED } {
                assert!($gap, "the gap looked up is exactly the text between the two selections");
            }
            kani::cover!(want && unsafe { GAP_ASKED }.is_some(), "holds across a whitespace gap");
            kani::cover!(!want && unsafe { GAP_ASKED }.is_some(), "fails on a non-whitespace gap");
            kani::cover!(want && unsafe { GAP_ASKED }.is_none(), "holds by adjacency");
            fin(res);
        }
    };
}
pair_ws!(c13_pair_def_precedes_ws, |all| TextSelectionOperator::Precedes { all, negate: false, allow_whitespace: true },
    |a, b, ws| d_precedes_ws(a.end, b.begin, ws), |ga, gb| ga == a.end && gb == b.begin);
pair_ws!(c13_pair_def_succeeds_ws, |all| TextSelectionOperator::Succeeds { all, negate: false, allow_whitespace: true },
    |a, b, ws| d_precedes_ws(b.end, a.begin, ws), |ga, gb| ga == b.end && gb == a.begin);

// ------------------------------------------------------------------ pair level: negation = complement
macro_rules! pair_neg {
    ($name:ident, |$all:ident, $negate:ident, $limit:ident| $op:expr) => {
        #[kani::proof]
        #[kani::unwind(3)]
        fn $name() {
            let a = any_ts();
            let b = any_ts();
            let $all: bool = kani::any();
            let $limit: Option<usize> = kani::any();
            let res = bare(kani::any());
            let pos: TextSelectionOperator = { let $negate = false; $op };
            let neg: TextSelectionOperator = { let $negate = true; $op };
            let p = a.test(&pos, &b, &res);
            let n = a.test(&neg, &b, &res);
            assert!(p != n, "negated relation is the exact complement");
            assert!(pos.toggle_negate() == neg, "toggle_negate sets the flag");
            assert!(neg.toggle_negate() == pos, "toggle_negate is an involution");
            assert!(pos.toggle_all().toggle_all() == pos, "toggle_all is an involution");
            assert!(pos.toggle_all().all() != pos.all(), "toggle_all flips all");
            kani::cover!(p, "positive holds");
            kani::cover!(n, "negative holds");
            fin(res);
        }
    };
}
pair_neg!(c13_pair_neg_equals, |all, negate, limit| TextSelectionOperator::Equals { all, negate });
pair_neg!(c13_pair_neg_inset, |all, negate, limit| TextSelectionOperator::InSet { all, negate });
pair_neg!(c13_pair_neg_overlaps, |all, negate, limit| TextSelectionOperator::Overlaps { all, negate });
pair_neg!(c13_pair_neg_embeds, |all, negate, limit| TextSelectionOperator::Embeds { all, negate });
pair_neg!(c13_pair_neg_embedded, |all, negate, limit| TextSelectionOperator::Embedded { all, negate, limit });
pair_neg!(c13_pair_neg_before, |all, negate, limit| TextSelectionOperator::Before { all, negate, limit });
pair_neg!(c13_pair_neg_after, |all, negate, limit| TextSelectionOperator::After { all, negate, limit });
pair_neg!(c13_pair_neg_precedes, |all, negate, limit| TextSelectionOperator::Precedes { all, negate, allow_whitespace: false });
pair_neg!(c13_pair_neg_succeeds, |all, negate, limit| TextSelectionOperator::Succeeds { all, negate, allow_whitespace: false });
pair_neg!(c13_pair_neg_samebegin, |all, negate, limit| TextSelectionOperator::SameBegin { all, negate });
pair_neg!(c13_pair_neg_sameend, |all, negate, limit| TextSelectionOperator::SameEnd { all, negate });
pair_neg!(c13_pair_neg_samerange, |all, negate, limit| TextSelectionOperator::SameRange { all, negate });

// ------------------------------------------------------------------ pair level: converse / symmetry / implication
macro_rules! pair_law {
    ($(#[$m:meta])* $name:ident, |$a:ident, $b:ident, $res:ident, $all:ident, $limit:ident| $body:block) => {
        #[kani::proof]
        #[kani::unwind(4)]
        $(#[$m])*
        fn $name() {
            let $a = any_ts();
            let $b = any_ts();
            let $all: bool = kani::any();
            let $limit: Option<usize> = kani::any();
            let $res = bare(kani::any());
            $body;
            fin($res);
        }
    };
}

pair_law!(c13_law_embeds_converse_embedded, |a, b, res, all, limit| {
    let x = a.test(&TextSelectionOperator::Embeds { all, negate: false }, &b, &res);
    let y = b.test(&TextSelectionOperator::Embedded { all, negate: false, limit: None }, &a, &res);
    assert!(x == y, "embeds is the converse of embedded");
    kani::cover!(x, "embeds holds");
    kani::cover!(!x, "embeds fails");
});
pair_law!(c13_law_before_converse_after, |a, b, res, all, limit| {
    let x = a.test(&TextSelectionOperator::Before { all, negate: false, limit }, &b, &res);
    let y = b.test(&TextSelectionOperator::After { all, negate: false, limit }, &a, &res);
    assert!(x == y, "before is the converse of after (same limit)");
    kani::cover!(x && limit.is_some(), "before holds within a limit");
    kani::cover!(!x, "before fails");
});
pair_law!(#[kani::stub(<TextResource as Text>::text_by_offset, gap_stub)] c13_law_precedes_converse_succeeds, |a, b, res, all, limit| {
    let ws: bool = kani::any();
    unsafe { GAP_IS_WS = kani::any(); }
    let x = a.test(&TextSelectionOperator::Precedes { all, negate: false, allow_whitespace: ws }, &b, &res);
    let y = b.test(&TextSelectionOperator::Succeeds { all, negate: false, allow_whitespace: ws }, &a, &res);
    assert!(x == y, "precedes is the converse of succeeds");
    kani::cover!(x, "precedes holds");
    kani::cover!(!x && ws, "precedes fails with whitespace allowed");
});
pair_law!(c13_law_overlaps_symmetric, |a, b, res, all, limit| {
    let op = TextSelectionOperator::Overlaps { all, negate: false };
    let x = a.test(&op, &b, &res);
    let y = b.test(&op, &a, &res);
    assert!(x == y, "overlaps is symmetric");
    kani::cover!(x && a.begin == a.end, "zero-width overlap");
    kani::cover!(!x, "no overlap");
});
pair_law!(c13_law_equals_symmetric, |a, b, res, all, limit| {
    let op = TextSelectionOperator::Equals { all, negate: false };
    let x = a.test(&op, &b, &res);
    let y = b.test(&op, &a, &res);
    assert!(x == y, "equals is symmetric");
    kani::cover!(x, "equal");
    kani::cover!(!x, "not equal");
});
pair_law!(c13_law_equals_implies, |a, b, res, all, limit| {
    let eq = a.test(&TextSelectionOperator::Equals { all, negate: false }, &b, &res);
    kani::assume(eq);
    assert!(a.test(&TextSelectionOperator::Embeds { all, negate: false }, &b, &res), "equals implies embeds");
    assert!(a.test(&TextSelectionOperator::Embedded { all, negate: false, limit }, &b, &res), "equals implies embedded (any limit)");
    assert!(a.test(&TextSelectionOperator::SameBegin { all, negate: false }, &b, &res), "equals implies samebegin");
    assert!(a.test(&TextSelectionOperator::SameEnd { all, negate: false }, &b, &res), "equals implies sameend");
    assert!(a.test(&TextSelectionOperator::Overlaps { all, negate: false }, &b, &res), "equals implies overlaps");
    kani::cover!(a.begin == a.end, "equal zero-width selections");
    kani::cover!(a.begin < a.end, "equal non-empty selections");
});
pair_law!(c13_law_embeds_both_ways_is_samerange, |a, b, res, all, limit| {
    let e1 = a.test(&TextSelectionOperator::Embeds { all, negate: false }, &b, &res);
    let e2 = a.test(&TextSelectionOperator::Embedded { all, negate: false, limit: None }, &b, &res);
    let sr = a.test(&TextSelectionOperator::SameRange { all, negate: false }, &b, &res);
    assert!((e1 && e2) == sr, "embeds and embedded together is same range");
    kani::cover!(sr, "same range");
    kani::cover!(e1 && !e2, "strictly embeds");
});
pair_law!(c13_law_before_excludes_overlap, |a, b, res, all, limit| {
    let bf = a.test(&TextSelectionOperator::Before { all, negate: false, limit }, &b, &res);
    let ov = a.test(&TextSelectionOperator::Overlaps { all, negate: false }, &b, &res);
    kani::assume(a.begin < a.end && b.begin < b.end);
    assert!(!(bf && ov), "non-empty selections: before excludes overlaps");
    let pr = a.test(&TextSelectionOperator::Precedes { all, negate: false, allow_whitespace: false }, &b, &res);
    assert!(!pr || a.test(&TextSelectionOperator::Before { all, negate: false, limit: Some(0) }, &b, &res), "precedes implies before with limit 0");
    kani::cover!(bf, "before");
    kani::cover!(ov, "overlap");
    kani::cover!(pr, "adjacent");
});

// ------------------------------------------------------------------ Ord / Eq / Hash consistency, intersection
pair_law!(c13_ord_consistent, |a, b, res, all, limit| {
    use core::cmp::Ordering;
    let c = a.cmp(&b);
    assert!(b.cmp(&a) == c.reverse(), "cmp antisymmetric");
    assert!((c == Ordering::Equal) == d_equals(&a, &b), "cmp equal iff same range");
    assert!(a.partial_cmp(&b) == Some(c), "partial_cmp agrees with cmp");
    if a.begin < b.begin { assert!(c == Ordering::Less, "ordered by begin first"); }
    kani::cover!(c == Ordering::Equal, "equal");
    kani::cover!(c == Ordering::Greater, "greater");
});
pair_law!(c13_intersection, |a, b, res, all, limit| {
    let got = a.intersection(&b);
    // non-empty common part, or one lies within the other (the documented "overlap")
    let lo = if a.begin > b.begin { a.begin } else { b.begin };
    let hi = if a.end < b.end { a.end } else { b.end };
    let ov = a.test(&TextSelectionOperator::Overlaps { all, negate: false }, &b, &res);
    assert!(got.is_some() == ov, "intersection exists exactly when the selections overlap");
    if let Some((i, ra, rb)) = got {
        assert!(i.begin == lo && i.end == hi, "intersection is the common range");
        assert!(i.handle().is_none(), "intersection is unbound");
        if let Some(ra) = ra {
            assert!(ra.begin >= a.begin && ra.end <= a.end && ra.begin <= ra.end, "remainder of self lies within self");
            assert!(ra.end <= i.begin || ra.begin >= i.end, "remainder of self is disjoint from the intersection");
        }
        if let Some(rb) = rb {
            assert!(rb.begin >= b.begin && rb.end <= b.end && rb.begin <= rb.end, "remainder of other lies within other");
            assert!(rb.end <= i.begin || rb.begin >= i.end, "remainder of other is disjoint from the intersection");
        }
        kani::cover!(ra.is_some() && rb.is_some(), "crossing selections");
        kani::cover!(ra.is_none() && rb.is_none(), "identical selections");
    }
    kani::cover!(got.is_none(), "disjoint");
});

// ------------------------------------------------------------------ singleton sets == members
macro_rules! singleton {
    ($(#[$m:meta])* $name:ident, |$all:ident, $negate:ident, $limit:ident| $op:expr) => {
        singleton!($(#[$m])* $name, gap = false, |$all, $negate, $limit| $op);
    };
    ($(#[$m:meta])* $name:ident, gap = $gap:expr, |$all:ident, $negate:ident, $limit:ident| $op:expr) => {
        #[kani::proof]
        #[kani::unwind(4)]
        $(#[$m])*
        fn $name() {
            unsafe { GAP_IS_WS = $gap; }
            let a = any_ts();
            let b = any_ts();
            let $all: bool = kani::any();
            let $negate: bool = kani::any();
            let $limit: Option<usize> = kani::any();
            let op: TextSelectionOperator = $op;
            let res = bare(kani::any());
            let sa = set1(a);
            let sb = set1(b);
            let m = a.test(&op, &b, &res);
            assert!(a.test_set(&op, &sb, &res) == m, "member vs singleton set equals member vs member");
            assert!(sa.test(&op, &b, &res) == m, "singleton set vs member equals member vs member");
            assert!(sa.test_set(&op, &sb, &res) == m, "singleton set vs singleton set equals member vs member");
            kani::cover!(m && !$negate, "holds");
            kani::cover!(!m && !$negate, "does not hold");
            kani::cover!(m && $negate && $all, "negated all-variant holds");
            core::mem::forget(sa);
            core::mem::forget(sb);
            fin(res);
        }
    };
}
singleton!(c13_singleton_equals, |all, negate, limit| TextSelectionOperator::Equals { all, negate });
singleton!(c13_singleton_inset, |all, negate, limit| TextSelectionOperator::InSet { all, negate });
singleton!(c13_singleton_overlaps, |all, negate, limit| TextSelectionOperator::Overlaps { all, negate });
singleton!(c13_singleton_embeds, |all, negate, limit| TextSelectionOperator::Embeds { all, negate });
singleton!(c13_singleton_embedded, |all, negate, limit| TextSelectionOperator::Embedded { all, negate, limit });
singleton!(c13_singleton_before, |all, negate, limit| TextSelectionOperator::Before { all, negate, limit });
singleton!(c13_singleton_after, |all, negate, limit| TextSelectionOperator::After { all, negate, limit });
singleton!(c13_singleton_precedes, |all, negate, limit| TextSelectionOperator::Precedes { all, negate, allow_whitespace: false });
singleton!(c13_singleton_succeeds, |all, negate, limit| TextSelectionOperator::Succeeds { all, negate, allow_whitespace: false });
singleton!(#[kani::stub(<TextResource as Text>::text_by_offset, gap_stub)] c13_singleton_precedes_ws_gapws, gap = true, |all, negate, limit| TextSelectionOperator::Precedes { all, negate, allow_whitespace: true });
singleton!(#[kani::stub(<TextResource as Text>::text_by_offset, gap_stub)] c13_singleton_precedes_ws_gaptext, gap = false, |all, negate, limit| TextSelectionOperator::Precedes { all, negate, allow_whitespace: true });
singleton!(#[kani::stub(<TextResource as Text>::text_by_offset, gap_stub)] c13_singleton_succeeds_ws_gapws, gap = true, |all, negate, limit| TextSelectionOperator::Succeeds { all, negate, allow_whitespace: true });
singleton!(#[kani::stub(<TextResource as Text>::text_by_offset, gap_stub)] c13_singleton_succeeds_ws_gaptext, gap = false, |all, negate, limit| TextSelectionOperator::Succeeds { all, negate, allow_whitespace: true });
singleton!(c13_singleton_samebegin, |all, negate, limit| TextSelectionOperator::SameBegin { all, negate });
singleton!(c13_singleton_sameend, |all, negate, limit| TextSelectionOperator::SameEnd { all, negate });
singleton!(c13_singleton_samerange, |all, negate, limit| TextSelectionOperator::SameRange { all, negate });

// ------------------------------------------------------------------ 2x2 sets against the quantifier formula
// documented set semantics:
//   all=false: each member of A is in the relation with SOME member of B
//   all=true : Overlaps/Embeds/Embedded/Before/After: each member of A with EVERY member of B
//              Precedes: rightmost(A) ends where leftmost(B) begins; Succeeds: leftmost(A) begins where rightmost(B) ends
//              SameBegin: leftmost begins coincide; SameEnd: rightmost ends coincide
macro_rules! set22 {
    ($name:ident, $all:expr, |$limit:ident| $op:expr, |$x:ident, $y:ident| $rel:expr) => {
        #[kani::proof]
        #[kani::unwind(4)]
        fn $name() {
            let a1 = any_ts(); let a2 = any_ts(); let b1 = any_ts(); let b2 = any_ts();
            let $limit: Option<usize> = kani::any();
            let op: TextSelectionOperator = $op;
            let res = bare(kani::any());
            let sa = set2(a1, a2);
            let sb = set2(b1, b2);
            let r = |$x: &TextSelection, $y: &TextSelection| -> bool { $rel };
            let want = if $all {
                r(&a1, &b1) && r(&a1, &b2) && r(&a2, &b1) && r(&a2, &b2)
            } else {
                (r(&a1, &b1) || r(&a1, &b2)) && (r(&a2, &b1) || r(&a2, &b2))
            };
            let got = sa.test_set(&op, &sb, &res);
            assert!(got == want, "2x2 set test equals the documented quantifier formula");
            let neg = sa.test_set(&op.toggle_negate(), &sb, &res);
            assert!(neg != got, "negated set test is the complement");
            kani::cover!(want, "holds");
            kani::cover!(!want, "does not hold");
            core::mem::forget(sa);
            core::mem::forget(sb);
            fin(res);
        }
    };
}
set22!(c13_set22_overlaps_any, false, |limit| TextSelectionOperator::Overlaps { all: false, negate: false }, |x, y| d_overlaps(x, y));
set22!(c13_set22_overlaps_all, true, |limit| TextSelectionOperator::Overlaps { all: true, negate: false }, |x, y| d_overlaps(x, y));
set22!(c13_set22_embeds_any, false, |limit| TextSelectionOperator::Embeds { all: false, negate: false }, |x, y| d_embeds(x, y));
set22!(c13_set22_embeds_all, true, |limit| TextSelectionOperator::Embeds { all: true, negate: false }, |x, y| d_embeds(x, y));
set22!(c13_set22_embedded_any, false, |limit| TextSelectionOperator::Embedded { all: false, negate: false, limit }, |x, y| d_embedded(x, y, limit));
set22!(c13_set22_embedded_all, true, |limit| TextSelectionOperator::Embedded { all: true, negate: false, limit }, |x, y| d_embedded(x, y, limit));
set22!(c13_set22_before_any, false, |limit| TextSelectionOperator::Before { all: false, negate: false, limit }, |x, y| d_before(x, y, limit));
set22!(c13_set22_before_all, true, |limit| TextSelectionOperator::Before { all: true, negate: false, limit: None }, |x, y| d_before(x, y, None));
set22!(c13_set22_after_any, false, |limit| TextSelectionOperator::After { all: false, negate: false, limit }, |x, y| d_after(x, y, limit));
set22!(c13_set22_after_all, true, |limit| TextSelectionOperator::After { all: true, negate: false, limit: None }, |x, y| d_after(x, y, None));
set22!(c13_set22_precedes_any, false, |limit| TextSelectionOperator::Precedes { all: false, negate: false, allow_whitespace: false }, |x, y| d_precedes(x, y));
set22!(c13_set22_succeeds_any, false, |limit| TextSelectionOperator::Succeeds { all: false, negate: false, allow_whitespace: false }, |x, y| d_succeeds(x, y));
set22!(c13_set22_samebegin_any, false, |limit| TextSelectionOperator::SameBegin { all: false, negate: false }, |x, y| d_samebegin(x, y));
set22!(c13_set22_sameend_any, false, |limit| TextSelectionOperator::SameEnd { all: false, negate: false }, |x, y| d_sameend(x, y));
set22!(c13_set22_inset_any, false, |limit| TextSelectionOperator::InSet { all: false, negate: false }, |x, y| d_equals(x, y));

// leftmost / rightmost based all-variants
macro_rules! set22_extreme {
    ($(#[$m:meta])* $name:ident, $op:expr, |$la:ident, $ra:ident, $lb:ident, $rb:ident| $want:expr) => {
        set22_extreme!($(#[$m])* $name, gap = false, $op, |$la, $ra, $lb, $rb| $want);
    };
    ($(#[$m:meta])* $name:ident, gap = $gap:expr, $op:expr, |$la:ident, $ra:ident, $lb:ident, $rb:ident| $want:expr) => {
        #[kani::proof]
        #[kani::unwind(4)]
        $(#[$m])*
        fn $name() {
            unsafe { GAP_IS_WS = $gap; }
            let a1 = any_ts(); let a2 = any_ts(); let b1 = any_ts(); let b2 = any_ts();
            let op: TextSelectionOperator = $op;
            let res = bare(kani::any());
            let sa = set2(a1, a2);
            let sb = set2(b1, b2);
            // leftmost begin / rightmost end of each set
            let $la = if a1.begin <= a2.begin { a1.begin } else { a2.begin };
            let $ra = if a1.end >= a2.end { a1.end } else { a2.end };
            let $lb = if b1.begin <= b2.begin { b1.begin } else { b2.begin };
            let $rb = if b1.end >= b2.end { b1.end } else { b2.end };
            let want: bool = $want;
            let got = sa.test_set(&op, &sb, &res);
            assert!(got == want, "2x2 all-variant equals the documented leftmost/rightmost formula");
            assert!(sa.test_set(&op.toggle_negate(), &sb, &res) != got, "negated set test is the complement");
            assert!(sa.begin() == Some($la) && sa.end() == Some($ra), "set begin/end are leftmost begin and rightmost end");
            kani::cover!(want, "holds");
            kani::cover!(!want, "does not hold");
            core::mem::forget(sa);
            core::mem::forget(sb);
            fin(res);
        }
    };
}
set22_extreme!(c13_set22_precedes_all, TextSelectionOperator::Precedes { all: true, negate: false, allow_whitespace: false }, |la, ra, lb, rb| ra == lb);
set22_extreme!(c13_set22_succeeds_all, TextSelectionOperator::Succeeds { all: true, negate: false, allow_whitespace: false }, |la, ra, lb, rb| la == rb);
set22_extreme!(#[kani::stub(<TextResource as Text>::text_by_offset, gap_stub)] c13_set22_precedes_all_ws_gapws, gap = true, TextSelectionOperator::Precedes { all: true, negate: false, allow_whitespace: true }, |la, ra, lb, rb| d_precedes_ws(ra, lb, true));
set22_extreme!(#[kani::stub(<TextResource as Text>::text_by_offset, gap_stub)] c13_set22_precedes_all_ws_gaptext, gap = false, TextSelectionOperator::Precedes { all: true, negate: false, allow_whitespace: true }, |la, ra, lb, rb| d_precedes_ws(ra, lb, false));
set22_extreme!(#[kani::stub(<TextResource as Text>::text_by_offset, gap_stub)] c13_set22_succeeds_all_ws_gapws, gap = true, TextSelectionOperator::Succeeds { all: true, negate: false, allow_whitespace: true }, |la, ra, lb, rb| d_precedes_ws(rb, la, true));
set22_extreme!(#[kani::stub(<TextResource as Text>::text_by_offset, gap_stub)] c13_set22_succeeds_all_ws_gaptext, gap = false, TextSelectionOperator::Succeeds { all: true, negate: false, allow_whitespace: true }, |la, ra, lb, rb| d_precedes_ws(rb, la, false));
set22_extreme!(c13_set22_samebegin_all, TextSelectionOperator::SameBegin { all: true, negate: false }, |la, ra, lb, rb| la == lb);
set22_extreme!(c13_set22_sameend_all, TextSelectionOperator::SameEnd { all: true, negate: false }, |la, ra, lb, rb| ra == rb);
set22_extreme!(c13_set22_samerange_all, TextSelectionOperator::SameRange { all: true, negate: false }, |la, ra, lb, rb| la == lb && ra == rb);

// Equals on sets: same number of members and each member of A equal to some member of B
#[kani::proof]
#[kani::unwind(4)]
fn c13_set22_equals() {
    let a1 = any_ts(); let a2 = any_ts(); let b1 = any_ts(); let b2 = any_ts();
    let op = TextSelectionOperator::Equals { all: false, negate: false };
    let res = bare(kani::any());
    let sa = set2(a1, a2);
    let sb = set2(b1, b2);
    let want = (d_equals(&a1, &b1) || d_equals(&a1, &b2)) && (d_equals(&a2, &b1) || d_equals(&a2, &b2));
    let got = sa.test_set(&op, &sb, &res);
    assert!(got == want, "2x2 equals: every member has an equal counterpart");
    assert!(sa.test_set(&op.toggle_negate(), &sb, &res) != got, "negated set test is the complement");
    // sets of different size are never equal
    let s1 = set1(a1);
    assert!(!s1.test_set(&op, &sb, &res), "sets of different size are not equal");
    kani::cover!(want, "equal sets");
    kani::cover!(!want, "different sets");
    core::mem::forget(s1);
    core::mem::forget(sa);
    core::mem::forget(sb);
    fin(res);
}

// no operator / modifier combination panics at set level (2 vs 2), all flags symbolic, kind fixed per harness
macro_rules! set22_total {
    ($(#[$m:meta])* $name:ident, |$all:ident, $negate:ident, $limit:ident, $ws:ident| $op:expr) => {
        set22_total!($(#[$m])* $name, gap = false, |$all, $negate, $limit, $ws| $op);
    };
    ($(#[$m:meta])* $name:ident, gap = $gap:expr, |$all:ident, $negate:ident, $limit:ident, $ws:ident| $op:expr) => {
        #[kani::proof]
        #[kani::unwind(4)]
        $(#[$m])*
        fn $name() {
            unsafe { GAP_IS_WS = $gap; }
            let a1 = any_ts(); let a2 = any_ts(); let b1 = any_ts(); let b2 = any_ts();
            let $all: bool = kani::any();
            let $negate: bool = kani::any();
            let $ws: bool = kani::any();
            let $limit: Option<usize> = kani::any();
            let op: TextSelectionOperator = $op;
            let res = bare(kani::any());
            let sa = set2(a1, a2);
            let sb = set2(b1, b2);
            let x = sa.test_set(&op, &sb, &res);
            let y = sa.test(&op, &b1, &res);
            let z = a1.test_set(&op, &sb, &res);
            kani::cover!(x && $all, "set/set holds with all");
            kani::cover!(!y && $negate, "set/member fails negated");
            kani::cover!(z, "member/set holds");
            core::mem::forget(sa);
            core::mem::forget(sb);
            fin(res);
        }
    };
}
set22_total!(c13_total_equals, |all, negate, limit, ws| TextSelectionOperator::Equals { all, negate });
set22_total!(c13_total_inset, |all, negate, limit, ws| TextSelectionOperator::InSet { all, negate });
set22_total!(c13_total_overlaps, |all, negate, limit, ws| TextSelectionOperator::Overlaps { all, negate });
set22_total!(c13_total_embeds, |all, negate, limit, ws| TextSelectionOperator::Embeds { all, negate });
set22_total!(c13_total_embedded, |all, negate, limit, ws| TextSelectionOperator::Embedded { all, negate, limit });
set22_total!(c13_total_before, |all, negate, limit, ws| TextSelectionOperator::Before { all, negate, limit });
set22_total!(c13_total_after, |all, negate, limit, ws| TextSelectionOperator::After { all, negate, limit });
set22_total!(c13_total_precedes, |all, negate, limit, ws| TextSelectionOperator::Precedes { all, negate, allow_whitespace: false });
set22_total!(c13_total_succeeds, |all, negate, limit, ws| TextSelectionOperator::Succeeds { all, negate, allow_whitespace: false });
set22_total!(#[kani::stub(<TextResource as Text>::text_by_offset, gap_stub)] c13_total_precedes_ws_gapws, gap = true, |all, negate, limit, ws| TextSelectionOperator::Precedes { all, negate, allow_whitespace: true });
set22_total!(#[kani::stub(<TextResource as Text>::text_by_offset, gap_stub)] c13_total_precedes_ws_gaptext, gap = false, |all, negate, limit, ws| TextSelectionOperator::Precedes { all, negate, allow_whitespace: true });
set22_total!(#[kani::stub(<TextResource as Text>::text_by_offset, gap_stub)] c13_total_succeeds_ws_gapws, gap = true, |all, negate, limit, ws| TextSelectionOperator::Succeeds { all, negate, allow_whitespace: true });
set22_total!(#[kani::stub(<TextResource as Text>::text_by_offset, gap_stub)] c13_total_succeeds_ws_gaptext, gap = false, |all, negate, limit, ws| TextSelectionOperator::Succeeds { all, negate, allow_whitespace: true });
set22_total!(c13_total_samebegin, |all, negate, limit, ws| TextSelectionOperator::SameBegin { all, negate });
set22_total!(c13_total_sameend, |all, negate, limit, ws| TextSelectionOperator::SameEnd { all, negate });
set22_total!(c13_total_samerange, |all, negate, limit, ws| TextSelectionOperator::SameRange { all, negate });

// ------------------------------------------------------------------ 2x1 (set vs member) and 1x2 (member vs set)
// exercises TextSelectionSet::test and TextSelection::test_set directly; all flag fixed per harness, limit symbolic
macro_rules! set_2v1 {
    ($name:ident, |$limit:ident| $op:expr, |$a1:ident, $a2:ident, $b:ident| $want:expr) => {
        #[kani::proof]
        #[kani::unwind(4)]
        fn $name() {
            let $a1 = any_ts(); let $a2 = any_ts(); let $b = any_ts();
            let $limit: Option<usize> = kani::any();
            let op: TextSelectionOperator = $op;
            let res = bare(kani::any());
            let sa = set2($a1, $a2);
            let want: bool = $want;
            let got = sa.test(&op, &$b, &res);
            assert!(got == want, "set vs member equals the documented formula");
            assert!(sa.test(&op.toggle_negate(), &$b, &res) != got, "negation is the complement");
            kani::cover!(want, "holds");
            kani::cover!(!want, "does not hold");
            core::mem::forget(sa);
            fin(res);
        }
    };
}
macro_rules! set_1v2 {
    ($name:ident, |$limit:ident| $op:expr, |$a:ident, $b1:ident, $b2:ident| $want:expr) => {
        #[kani::proof]
        #[kani::unwind(4)]
        fn $name() {
            let $a = any_ts(); let $b1 = any_ts(); let $b2 = any_ts();
            let $limit: Option<usize> = kani::any();
            let op: TextSelectionOperator = $op;
            let res = bare(kani::any());
            let sb = set2($b1, $b2);
            let want: bool = $want;
            let got = $a.test_set(&op, &sb, &res);
            assert!(got == want, "member vs set equals the documented formula");
            assert!($a.test_set(&op.toggle_negate(), &sb, &res) != got, "negation is the complement");
            kani::cover!(want, "holds");
            kani::cover!(!want, "does not hold");
            core::mem::forget(sb);
            fin(res);
        }
    };
}
fn lo(x: usize, y: usize) -> usize { if x <= y { x } else { y } }
fn hi(x: usize, y: usize) -> usize { if x >= y { x } else { y } }

set_2v1!(c13_set21_equals, |limit| TextSelectionOperator::Equals { all: kani::any(), negate: false }, |a1, a2, b| d_equals(&a1, &b) && d_equals(&a2, &b));
set_2v1!(c13_set21_inset, |limit| TextSelectionOperator::InSet { all: kani::any(), negate: false }, |a1, a2, b| d_equals(&a1, &b) && d_equals(&a2, &b));
set_2v1!(c13_set21_overlaps, |limit| TextSelectionOperator::Overlaps { all: kani::any(), negate: false }, |a1, a2, b| d_overlaps(&a1, &b) && d_overlaps(&a2, &b));
set_2v1!(c13_set21_embeds, |limit| TextSelectionOperator::Embeds { all: kani::any(), negate: false }, |a1, a2, b| d_embeds(&a1, &b) && d_embeds(&a2, &b));
set_2v1!(c13_set21_embedded, |limit| TextSelectionOperator::Embedded { all: kani::any(), negate: false, limit }, |a1, a2, b| d_embedded(&a1, &b, limit) && d_embedded(&a2, &b, limit));
set_2v1!(c13_set21_before_any, |limit| TextSelectionOperator::Before { all: false, negate: false, limit }, |a1, a2, b| d_before(&a1, &b, limit) && d_before(&a2, &b, limit));
set_2v1!(c13_set21_before_all, |limit| TextSelectionOperator::Before { all: true, negate: false, limit: None }, |a1, a2, b| d_before(&a1, &b, None) && d_before(&a2, &b, None));
set_2v1!(c13_set21_after_any, |limit| TextSelectionOperator::After { all: false, negate: false, limit }, |a1, a2, b| d_after(&a1, &b, limit) && d_after(&a2, &b, limit));
set_2v1!(c13_set21_after_all, |limit| TextSelectionOperator::After { all: true, negate: false, limit: None }, |a1, a2, b| d_after(&a1, &b, None) && d_after(&a2, &b, None));
set_2v1!(c13_set21_precedes_any, |limit| TextSelectionOperator::Precedes { all: false, negate: false, allow_whitespace: false }, |a1, a2, b| d_precedes(&a1, &b) && d_precedes(&a2, &b));
set_2v1!(c13_set21_precedes_all, |limit| TextSelectionOperator::Precedes { all: true, negate: false, allow_whitespace: false }, |a1, a2, b| hi(a1.end, a2.end) == b.begin);
set_2v1!(c13_set21_succeeds_any, |limit| TextSelectionOperator::Succeeds { all: false, negate: false, allow_whitespace: false }, |a1, a2, b| d_succeeds(&a1, &b) && d_succeeds(&a2, &b));
set_2v1!(c13_set21_succeeds_all, |limit| TextSelectionOperator::Succeeds { all: true, negate: false, allow_whitespace: false }, |a1, a2, b| lo(a1.begin, a2.begin) == b.end);
set_2v1!(c13_set21_samebegin_any, |limit| TextSelectionOperator::SameBegin { all: false, negate: false }, |a1, a2, b| a1.begin == b.begin && a2.begin == b.begin);
set_2v1!(c13_set21_samebegin_all, |limit| TextSelectionOperator::SameBegin { all: true, negate: false }, |a1, a2, b| lo(a1.begin, a2.begin) == b.begin);
set_2v1!(c13_set21_sameend_any, |limit| TextSelectionOperator::SameEnd { all: false, negate: false }, |a1, a2, b| a1.end == b.end && a2.end == b.end);
set_2v1!(c13_set21_sameend_all, |limit| TextSelectionOperator::SameEnd { all: true, negate: false }, |a1, a2, b| hi(a1.end, a2.end) == b.end);
set_2v1!(c13_set21_samerange, |limit| TextSelectionOperator::SameRange { all: kani::any(), negate: false }, |a1, a2, b| lo(a1.begin, a2.begin) == b.begin && hi(a1.end, a2.end) == b.end);

set_1v2!(c13_set12_equals_any, |limit| TextSelectionOperator::Equals { all: false, negate: false }, |a, b1, b2| d_equals(&a, &b1) || d_equals(&a, &b2));
set_1v2!(c13_set12_equals_all, |limit| TextSelectionOperator::Equals { all: true, negate: false }, |a, b1, b2| d_equals(&a, &b1) && d_equals(&a, &b2));
set_1v2!(c13_set12_overlaps_any, |limit| TextSelectionOperator::Overlaps { all: false, negate: false }, |a, b1, b2| d_overlaps(&a, &b1) || d_overlaps(&a, &b2));
set_1v2!(c13_set12_overlaps_all, |limit| TextSelectionOperator::Overlaps { all: true, negate: false }, |a, b1, b2| d_overlaps(&a, &b1) && d_overlaps(&a, &b2));
set_1v2!(c13_set12_embeds_any, |limit| TextSelectionOperator::Embeds { all: false, negate: false }, |a, b1, b2| d_embeds(&a, &b1) || d_embeds(&a, &b2));
set_1v2!(c13_set12_embeds_all, |limit| TextSelectionOperator::Embeds { all: true, negate: false }, |a, b1, b2| d_embeds(&a, &b1) && d_embeds(&a, &b2));
set_1v2!(c13_set12_embedded_any, |limit| TextSelectionOperator::Embedded { all: false, negate: false, limit }, |a, b1, b2| d_embedded(&a, &b1, limit) || d_embedded(&a, &b2, limit));
set_1v2!(c13_set12_embedded_all, |limit| TextSelectionOperator::Embedded { all: true, negate: false, limit }, |a, b1, b2| d_embedded(&a, &b1, limit) && d_embedded(&a, &b2, limit));
set_1v2!(c13_set12_before_any, |limit| TextSelectionOperator::Before { all: false, negate: false, limit }, |a, b1, b2| d_before(&a, &b1, limit) || d_before(&a, &b2, limit));
set_1v2!(c13_set12_before_all, |limit| TextSelectionOperator::Before { all: true, negate: false, limit }, |a, b1, b2| d_before(&a, &b1, limit) && d_before(&a, &b2, limit));
set_1v2!(c13_set12_after_any, |limit| TextSelectionOperator::After { all: false, negate: false, limit }, |a, b1, b2| d_after(&a, &b1, limit) || d_after(&a, &b2, limit));
set_1v2!(c13_set12_after_all, |limit| TextSelectionOperator::After { all: true, negate: false, limit }, |a, b1, b2| d_after(&a, &b1, limit) && d_after(&a, &b2, limit));
set_1v2!(c13_set12_precedes_any, |limit| TextSelectionOperator::Precedes { all: false, negate: false, allow_whitespace: false }, |a, b1, b2| d_precedes(&a, &b1) || d_precedes(&a, &b2));
set_1v2!(c13_set12_precedes_all, |limit| TextSelectionOperator::Precedes { all: true, negate: false, allow_whitespace: false }, |a, b1, b2| a.end == lo(b1.begin, b2.begin));
set_1v2!(c13_set12_succeeds_any, |limit| TextSelectionOperator::Succeeds { all: false, negate: false, allow_whitespace: false }, |a, b1, b2| d_succeeds(&a, &b1) || d_succeeds(&a, &b2));
set_1v2!(c13_set12_succeeds_all, |limit| TextSelectionOperator::Succeeds { all: true, negate: false, allow_whitespace: false }, |a, b1, b2| a.begin == hi(b1.end, b2.end));
set_1v2!(c13_set12_samebegin_any, |limit| TextSelectionOperator::SameBegin { all: false, negate: false }, |a, b1, b2| a.begin == b1.begin || a.begin == b2.begin);
set_1v2!(c13_set12_samebegin_all, |limit| TextSelectionOperator::SameBegin { all: true, negate: false }, |a, b1, b2| a.begin == lo(b1.begin, b2.begin));
set_1v2!(c13_set12_sameend_any, |limit| TextSelectionOperator::SameEnd { all: false, negate: false }, |a, b1, b2| a.end == b1.end || a.end == b2.end);
set_1v2!(c13_set12_sameend_all, |limit| TextSelectionOperator::SameEnd { all: true, negate: false }, |a, b1, b2| a.end == hi(b1.end, b2.end));
set_1v2!(c13_set12_samerange, |limit| TextSelectionOperator::SameRange { all: kani::any(), negate: false }, |a, b1, b2| a.begin == lo(b1.begin, b2.begin) && a.end == hi(b1.end, b2.end));
