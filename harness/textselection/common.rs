// Shared helpers for harnesses living in crate::textselection
use super::super::*;

/// arbitrary well-formed text selection (begin <= end), arbitrary optional handle, full 64-bit width
pub(crate) fn any_ts() -> TextSelection {
    let begin: usize = kani::any();
    let end: usize = kani::any();
    kani::assume(begin <= end);
    let bound: bool = kani::any();
    let h: u32 = kani::any();
    TextSelection {
        intid: if bound { Some(TextSelectionHandle(h)) } else { None },
        begin,
        end,
    }
}

/// arbitrary well-formed text selection without handle
pub(crate) fn any_ts_unbound() -> TextSelection {
    let begin: usize = kani::any();
    let end: usize = kani::any();
    kani::assume(begin <= end);
    TextSelection { intid: None, begin, end }
}

pub(crate) fn set1(a: TextSelection) -> TextSelectionSet {
    let mut data: SmallVec<[TextSelection; 1]> = SmallVec::new();
    data.push(a);
    TextSelectionSet { data, resource: TextResourceHandle::new(0), sorted: false }
}

pub(crate) fn set2(a: TextSelection, b: TextSelection) -> TextSelectionSet {
    TextSelectionSet {
        data: SmallVec::from_vec(vec![a, b]),
        resource: TextResourceHandle::new(0),
        sorted: false,
    }
}

// ---- interval-arithmetic definitions (the oracle), written independently of the implementation
pub(crate) fn d_equals(a: &TextSelection, b: &TextSelection) -> bool { a.begin == b.begin && a.end == b.end }
pub(crate) fn d_embeds(a: &TextSelection, b: &TextSelection) -> bool { a.begin <= b.begin && b.end <= a.end }
pub(crate) fn d_overlaps(a: &TextSelection, b: &TextSelection) -> bool {
    (a.begin < b.end && b.begin < a.end) || d_embeds(a, b) || d_embeds(b, a)
}
pub(crate) fn d_embedded(a: &TextSelection, b: &TextSelection, limit: Option<usize>) -> bool {
    d_embeds(b, a) && match limit { None => true, Some(l) => a.begin - b.begin <= l && b.end - a.end <= l }
}
pub(crate) fn d_before(a: &TextSelection, b: &TextSelection, limit: Option<usize>) -> bool {
    a.end <= b.begin && match limit { None => true, Some(l) => b.begin - a.end <= l }
}
pub(crate) fn d_after(a: &TextSelection, b: &TextSelection, limit: Option<usize>) -> bool {
    a.begin >= b.end && match limit { None => true, Some(l) => a.begin - b.end <= l }
}
pub(crate) fn d_precedes(a: &TextSelection, b: &TextSelection) -> bool { a.end == b.begin }
pub(crate) fn d_succeeds(a: &TextSelection, b: &TextSelection) -> bool { a.begin == b.end }
pub(crate) fn d_samebegin(a: &TextSelection, b: &TextSelection) -> bool { a.begin == b.begin }
pub(crate) fn d_sameend(a: &TextSelection, b: &TextSelection) -> bool { a.end == b.end }

// ---- stub for the whitespace-gap lookup `resource.text_by_offset(gap)` (string slicing + error construction,
// out of reach): records the gap it was asked for and answers " " or "x" according to a per-harness flag.
pub(crate) static mut GAP_IS_WS: bool = false;
pub(crate) static mut GAP_ASKED: Option<(usize, usize)> = None;
pub(crate) fn gap_stub<'a>(_r: &'a TextResource, offset: &Offset) -> Result<&'a str, StamError> where 'a: 'a {
    let ws = unsafe { GAP_IS_WS };
    if let (Cursor::BeginAligned(b), Cursor::BeginAligned(e)) = (offset.begin, offset.end) {
        unsafe { GAP_ASKED = Some((b, e)); }
    }
    Ok(if ws { " " } else { "x" })
}

pub(crate) fn set3(a: TextSelection, b: TextSelection, c: TextSelection) -> TextSelectionSet {
    TextSelectionSet {
        data: SmallVec::from_vec(vec![a, b, c]),
        resource: TextResourceHandle::new(0),
        sorted: false,
    }
}
