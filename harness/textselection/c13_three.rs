// C13 (thorough tier) — sets of three members: 3x1 (TextSelectionSet::test), 1x3 (TextSelection::test_set), 3x2 (set vs set)
use super::super::*;
use super::common::*;
use crate::resources::kani_verif::common::bare;

fn lo3(a: usize, b: usize, c: usize) -> usize { let m = if a <= b { a } else { b }; if m <= c { m } else { c } }
fn hi3(a: usize, b: usize, c: usize) -> usize { let m = if a >= b { a } else { b }; if m >= c { m } else { c } }

macro_rules! set_3v1 {
    ($name:ident, |$limit:ident| $op:expr, |$a1:ident, $a2:ident, $a3:ident, $b:ident| $want:expr) => {
        #[kani::proof]
        #[kani::unwind(5)]
        fn $name() {
            let $a1 = any_ts(); let $a2 = any_ts(); let $a3 = any_ts(); let $b = any_ts();
            let $limit: Option<usize> = kani::any();
            let op: TextSelectionOperator = $op;
            let res = bare(kani::any());
            let sa = set3($a1, $a2, $a3);
            let want: bool = $want;
            let got = sa.test(&op, &$b, &res);
            assert!(got == want, "3-member set vs member equals the documented formula");
            assert!(sa.test(&op.toggle_negate(), &$b, &res) != got, "negation is the complement");
            kani::cover!(want, "holds");
            kani::cover!(!want, "does not hold");
            core::mem::forget(sa);
            core::mem::forget(res);
        }
    };
}
macro_rules! set_1v3 {
    ($name:ident, |$limit:ident| $op:expr, |$a:ident, $b1:ident, $b2:ident, $b3:ident| $want:expr) => {
        #[kani::proof]
        #[kani::unwind(5)]
        fn $name() {
            let $a = any_ts(); let $b1 = any_ts(); let $b2 = any_ts(); let $b3 = any_ts();
            let $limit: Option<usize> = kani::any();
            let op: TextSelectionOperator = $op;
            let res = bare(kani::any());
            let sb = set3($b1, $b2, $b3);
            let want: bool = $want;
            let got = $a.test_set(&op, &sb, &res);
            assert!(got == want, "member vs 3-member set equals the documented formula");
            assert!($a.test_set(&op.toggle_negate(), &sb, &res) != got, "negation is the complement");
            kani::cover!(want, "holds");
            kani::cover!(!want, "does not hold");
            core::mem::forget(sb);
            core::mem::forget(res);
        }
    };
}
set_3v1!(c13_set31_overlaps, |limit| TextSelectionOperator::Overlaps { all: kani::any(), negate: false }, |a1, a2, a3, b| d_overlaps(&a1, &b) && d_overlaps(&a2, &b) && d_overlaps(&a3, &b));
set_3v1!(c13_set31_embedded, |limit| TextSelectionOperator::Embedded { all: kani::any(), negate: false, limit }, |a1, a2, a3, b| d_embedded(&a1, &b, limit) && d_embedded(&a2, &b, limit) && d_embedded(&a3, &b, limit));
set_3v1!(c13_set31_before_all, |limit| TextSelectionOperator::Before { all: true, negate: false, limit: None }, |a1, a2, a3, b| d_before(&a1, &b, None) && d_before(&a2, &b, None) && d_before(&a3, &b, None));
set_3v1!(c13_set31_precedes_all, |limit| TextSelectionOperator::Precedes { all: true, negate: false, allow_whitespace: false }, |a1, a2, a3, b| hi3(a1.end, a2.end, a3.end) == b.begin);
set_3v1!(c13_set31_succeeds_all, |limit| TextSelectionOperator::Succeeds { all: true, negate: false, allow_whitespace: false }, |a1, a2, a3, b| lo3(a1.begin, a2.begin, a3.begin) == b.end);
set_3v1!(c13_set31_samerange, |limit| TextSelectionOperator::SameRange { all: kani::any(), negate: false }, |a1, a2, a3, b| lo3(a1.begin, a2.begin, a3.begin) == b.begin && hi3(a1.end, a2.end, a3.end) == b.end);
set_1v3!(c13_set13_overlaps_any, |limit| TextSelectionOperator::Overlaps { all: false, negate: false }, |a, b1, b2, b3| d_overlaps(&a, &b1) || d_overlaps(&a, &b2) || d_overlaps(&a, &b3));
set_1v3!(c13_set13_embeds_all, |limit| TextSelectionOperator::Embeds { all: true, negate: false }, |a, b1, b2, b3| d_embeds(&a, &b1) && d_embeds(&a, &b2) && d_embeds(&a, &b3));
set_1v3!(c13_set13_after_any, |limit| TextSelectionOperator::After { all: false, negate: false, limit }, |a, b1, b2, b3| d_after(&a, &b1, limit) || d_after(&a, &b2, limit) || d_after(&a, &b3, limit));
set_1v3!(c13_set13_precedes_all, |limit| TextSelectionOperator::Precedes { all: true, negate: false, allow_whitespace: false }, |a, b1, b2, b3| a.end == lo3(b1.begin, b2.begin, b3.begin));
set_1v3!(c13_set13_sameend_all, |limit| TextSelectionOperator::SameEnd { all: true, negate: false }, |a, b1, b2, b3| a.end == hi3(b1.end, b2.end, b3.end));
set_1v3!(c13_set13_samerange, |limit| TextSelectionOperator::SameRange { all: kani::any(), negate: false }, |a, b1, b2, b3| a.begin == lo3(b1.begin, b2.begin, b3.begin) && a.end == hi3(b1.end, b2.end, b3.end));
