// construction of an AnnotationStore holding exactly the items a harness needs, bypassing builders and id maps
use super::super::*;

/// empty store (all id maps empty) with the given resources pushed directly
pub(crate) fn store_with_resource(res: TextResource) -> AnnotationStore {
    let mut store = AnnotationStore::new(Config::default());
    store.resources = Vec::with_capacity(2);
    store.resources.push(Some(res));
    store
}
