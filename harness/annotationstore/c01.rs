// C01 (stretch, thorough tier) — un-indexing of ONE removed annotation on a small field-built store:
// two annotations share a data item and a resource; a third annotates the first. After preremove(x) every reverse
// index lists exactly the remaining annotations for every item.
use super::super::*;
use super::common::*;
use crate::annotation::kani_verif::common::mk_annotation;
use crate::annotationdataset::kani_verif::common::mk_set;
use crate::resources::kani_verif::common::bare;
use crate::store::private::StoreCallbacks;
use crate::store::kani_verif::common::rm_from_rows;
use crate::types::kani_verif::common::{fmt_stub, rs_new};

fn ah(x: usize) -> AnnotationHandle { AnnotationHandle::new(x) }

/// A0: metadata on resource 0, data (s0,d0)
/// A1: metadata on resource 0, data (s0,d0),(s0,d1)
/// A2: annotation on A0 (no offset), data (s0,d2)
fn mk_store() -> AnnotationStore {
    let mut store = store_with_resource(bare(10));
    store.annotationsets = Vec::with_capacity(2);
    store.annotationsets.push(Some(mk_set(&[0, 0, 1])));
    store.annotations = Vec::with_capacity(4);
    store.annotations.push(Some(mk_annotation(0, &[(0, 0)], Selector::ResourceSelector(TextResourceHandle::new(0)))));
    store.annotations.push(Some(mk_annotation(1, &[(0, 0), (0, 1)], Selector::ResourceSelector(TextResourceHandle::new(0)))));
    store.annotations.push(Some(mk_annotation(2, &[(0, 2)], Selector::AnnotationSelector(ah(0), None))));
    // reverse indices as `inserted` would have built them
    let mut rows: Vec<Vec<AnnotationHandle>> = Vec::with_capacity(4);
    let mut r0 = Vec::with_capacity(4); r0.push(ah(0)); r0.push(ah(1));
    let mut r1 = Vec::with_capacity(4); r1.push(ah(1));
    let mut r2 = Vec::with_capacity(4); r2.push(ah(2));
    rows.push(r0); rows.push(r1); rows.push(r2);
    let mut outer = Vec::with_capacity(2);
    outer.push(rm_from_rows(rows));
    store.dataset_data_annotation_map.data = outer;
    let mut mrows: Vec<Vec<AnnotationHandle>> = Vec::with_capacity(2);
    let mut m0 = Vec::with_capacity(4); m0.push(ah(0)); m0.push(ah(1));
    mrows.push(m0);
    store.resource_annotation_metamap = rm_from_rows(mrows);
    let mut tv = Vec::with_capacity(2); tv.push(ah(2));
    store.annotation_annotation_map.data.insert(ah(0), tv);
    store
}
fn ddam(store: &AnnotationStore, d: usize) -> (usize, usize, usize) {
    match store.dataset_data_annotation_map.get(AnnotationDataSetHandle::new(0), AnnotationDataHandle::new(d)) {
        None => (0, 99, 99),
        Some(v) => (v.len(), v.get(0).map(|h| h.as_usize()).unwrap_or(99), v.get(1).map(|h| h.as_usize()).unwrap_or(99)),
    }
}
fn ram(store: &AnnotationStore) -> (usize, usize, usize) {
    match store.resource_annotation_metamap.get(TextResourceHandle::new(0)) {
        None => (0, 99, 99),
        Some(v) => (v.len(), v.get(0).map(|h| h.as_usize()).unwrap_or(99), v.get(1).map(|h| h.as_usize()).unwrap_or(99)),
    }
}
fn aam(store: &AnnotationStore, a: usize) -> usize {
    store.annotation_annotation_map.get(ah(a)).map(|v| v.len()).unwrap_or(0)
}

#[kani::proof]
#[kani::unwind(8)]
#[kani::stub(alloc::fmt::format, fmt_stub)]
#[kani::stub(std::hash::RandomState::new, rs_new)]
fn c01_store_preremove_shared_data() {
    let mut store = mk_store();
    let r = <AnnotationStore as StoreCallbacks<Annotation>>::preremove(&mut store, ah(1));
    assert!(r.is_ok(), "un-indexing an existing annotation succeeds");
    assert!(ddam(&store, 0) == (1, 0, 99), "the data item shared with A0 still lists A0, and only A0");
    assert!(ddam(&store, 1).0 == 0, "data used only by the removed annotation lists nothing");
    assert!(ddam(&store, 2) == (1, 2, 99), "data of an unrelated annotation untouched");
    assert!(ram(&store) == (1, 0, 99), "the resource still lists A0 as metadata, and only A0");
    assert!(aam(&store, 0) == 1, "annotations on A0 untouched");
    kani::cover!(true, "reached");
    core::mem::forget(r);
    core::mem::forget(store);
}

#[kani::proof]
#[kani::unwind(8)]
#[kani::stub(alloc::fmt::format, fmt_stub)]
#[kani::stub(std::hash::RandomState::new, rs_new)]
fn c01_store_preremove_annotation_on_annotation() {
    let mut store = mk_store();
    let r = <AnnotationStore as StoreCallbacks<Annotation>>::preremove(&mut store, ah(2));
    assert!(r.is_ok(), "un-indexing an existing annotation succeeds");
    assert!(aam(&store, 0) == 0, "A0 no longer lists the removed annotation as pointing at it");
    assert!(ddam(&store, 2).0 == 0, "its data lists nothing");
    assert!(ddam(&store, 0) == (2, 0, 1) && ram(&store) == (2, 0, 1), "everything else untouched");
    kani::cover!(true, "reached");
    core::mem::forget(r);
    core::mem::forget(store);
}
