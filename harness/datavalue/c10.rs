// C10 — DataValue::test against every scalar DataOperator: the documented comparison on same-type pairs, false on
// cross-type pairs (except Any), Not = complement, And/Or = conjunction/disjunction. Values and operands symbolic
// at full width (isize, f64 incl. NaN/inf/-0.0, bool).
use super::super::*;

fn any_value(kind: u8) -> DataValue {
    match kind % 4 {
        0 => DataValue::Null,
        1 => DataValue::Bool(kani::any()),
        2 => DataValue::Int(kani::any()),
        _ => DataValue::Float(kani::any()),
    }
}

/// the documented meaning, written as a table over (value type, operator)
fn oracle(v: &DataValue, op: &DataOperator) -> bool {
    match op {
        DataOperator::Any => true,
        DataOperator::Null => matches!(v, DataValue::Null),
        DataOperator::True => matches!(v, DataValue::Bool(true)),
        DataOperator::False => matches!(v, DataValue::Bool(false)),
        DataOperator::EqualsInt(n) => matches!(v, DataValue::Int(x) if x == n),
        DataOperator::GreaterThan(n) => matches!(v, DataValue::Int(x) if x > n),
        DataOperator::GreaterThanOrEqual(n) => matches!(v, DataValue::Int(x) if x >= n),
        DataOperator::LessThan(n) => matches!(v, DataValue::Int(x) if x < n),
        DataOperator::LessThanOrEqual(n) => matches!(v, DataValue::Int(x) if x <= n),
        DataOperator::EqualsFloat(n) => matches!(v, DataValue::Float(x) if x == n),
        DataOperator::GreaterThanFloat(n) => matches!(v, DataValue::Float(x) if x > n),
        DataOperator::GreaterThanOrEqualFloat(n) => matches!(v, DataValue::Float(x) if x >= n),
        DataOperator::LessThanFloat(n) => matches!(v, DataValue::Float(x) if x < n),
        DataOperator::LessThanOrEqualFloat(n) => matches!(v, DataValue::Float(x) if x <= n),
        _ => false, // list operators on scalar values
    }
}

// the operator KIND is fixed per harness (a symbolic kind keeps the string/date arms of test() - to_lowercase,
// parse, chrono - alive for the symbolic executor); value type and all payloads are symbolic
macro_rules! scalar {
    ($name:ident, $op:expr) => {
        #[kani::proof]
        #[kani::unwind(3)]
        fn $name() {
            let v = any_value(kani::any());
            let op: DataOperator<'static> = $op;
            let got = v.test(&op);
            assert!(got == oracle(&v, &op), "value test equals the documented comparison");
            kani::cover!(got, "passes");
            kani::cover!(!got, "fails");
            core::mem::forget(op);
            core::mem::forget(v);
        }
    };
}
scalar!(c10_test_null, DataOperator::Null);
scalar!(c10_test_true, DataOperator::True);
scalar!(c10_test_false, DataOperator::False);
scalar!(c10_test_equalsint, DataOperator::EqualsInt(kani::any()));
scalar!(c10_test_gt, DataOperator::GreaterThan(kani::any()));
scalar!(c10_test_ge, DataOperator::GreaterThanOrEqual(kani::any()));
scalar!(c10_test_lt, DataOperator::LessThan(kani::any()));
scalar!(c10_test_le, DataOperator::LessThanOrEqual(kani::any()));
scalar!(c10_test_equalsfloat, DataOperator::EqualsFloat(kani::any()));
scalar!(c10_test_gtf, DataOperator::GreaterThanFloat(kani::any()));
scalar!(c10_test_gef, DataOperator::GreaterThanOrEqualFloat(kani::any()));
scalar!(c10_test_ltf, DataOperator::LessThanFloat(kani::any()));
scalar!(c10_test_lef, DataOperator::LessThanOrEqualFloat(kani::any()));

#[kani::proof]
#[kani::unwind(3)]
fn c10_test_any() {
    let v = any_value(kani::any());
    assert!(v.test(&DataOperator::Any), "Any passes every value");
    kani::cover!(matches!(v, DataValue::Null), "null");
    core::mem::forget(v);
}
#[kani::proof]
#[kani::unwind(3)]
fn c10_test_listop_on_scalar() {
    let v = any_value(kani::any());
    assert!(!v.test(&DataOperator::HasElementInt(kani::any())) && !v.test(&DataOperator::HasElementFloat(kani::any())), "list operators fail on scalar values");
    kani::cover!(matches!(v, DataValue::Int(_)), "int");
    core::mem::forget(v);
}

macro_rules! not_complement {
    ($name:ident, $op:expr) => {
        #[kani::proof]
        #[kani::unwind(3)]
        fn $name() {
            let v = any_value(kani::any());
            let op: DataOperator<'static> = $op;
            let plain = v.test(&op);
            let neg = DataOperator::Not(Box::new(op));
            assert!(v.test(&neg) == !plain, "Not(op) is the exact complement of op, also across types");
            kani::cover!(plain, "positive passes");
            kani::cover!(!plain, "negation passes");
            core::mem::forget(neg);
            core::mem::forget(v);
        }
    };
}
not_complement!(c10_not_equalsint, DataOperator::EqualsInt(kani::any()));
not_complement!(c10_not_gtf, DataOperator::GreaterThanFloat(kani::any()));
not_complement!(c10_not_null, DataOperator::Null);
not_complement!(c10_not_true, DataOperator::True);

macro_rules! and_or {
    ($name:ident, $a:expr, $b:expr) => {
        #[kani::proof]
        #[kani::unwind(5)]
        fn $name() {
            let v = any_value(kani::any());
            let a: DataOperator<'static> = $a;
            let b: DataOperator<'static> = $b;
            let ta = v.test(&a);
            let tb = v.test(&b);
            let and = DataOperator::And(vec![a, b]);
            assert!(v.test(&and) == (ta && tb), "And is the conjunction of its members");
            let members = match and { DataOperator::And(m) => m, _ => unreachable!() };
            let or = DataOperator::Or(members);
            assert!(v.test(&or) == (ta || tb), "Or is the disjunction of its members");
            kani::cover!(ta != tb, "exactly one member passes");
            kani::cover!(ta && tb, "both pass");
            core::mem::forget(or);
            core::mem::forget(v);
        }
    };
}
and_or!(c10_andor_int_range, DataOperator::GreaterThan(kani::any()), DataOperator::LessThanOrEqual(kani::any()));
and_or!(c10_andor_float_range, DataOperator::GreaterThanOrEqualFloat(kani::any()), DataOperator::LessThanFloat(kani::any()));
and_or!(c10_andor_mixed, DataOperator::EqualsInt(kani::any()), DataOperator::Any);

// the operator derived from a value is passed by that value and by no other value of its type
// (this is the comparison the dedup of (key,value) pairs and data_by_value rest on, alongside ==)
macro_rules! from_value {
    ($name:ident, $k:expr) => {
        #[kani::proof]
        #[kani::unwind(3)]
        fn $name() {
            let v = any_value($k);
            let w = any_value($k);
            if let DataValue::Float(f) = v { kani::assume(!f.is_nan()); }
            let op = DataOperator::from(&v);
            assert!(v.test(&op), "a value passes the operator derived from it");
            assert!(w.test(&op) == (w == v), "another value of the same type passes it exactly when it is equal");
            kani::cover!(w == v, "equal");
            kani::cover!($k == 0 || w != v, "different");
            core::mem::forget(op);
            core::mem::forget(v);
            core::mem::forget(w);
        }
    };
}
from_value!(c10_from_value_null, 0);
// Bool: the derived operator kind (True / False) depends on the value, so the value is fixed per harness
macro_rules! from_value_bool {
    ($name:ident, $b:expr) => {
        #[kani::proof]
        #[kani::unwind(3)]
        fn $name() {
            let v = DataValue::Bool($b);
            let w = DataValue::Bool(kani::any());
            let op = DataOperator::from(&v);
            assert!(v.test(&op), "a value passes the operator derived from it");
            assert!(w.test(&op) == (w == v), "another value of the same type passes it exactly when it is equal");
            kani::cover!(w == v, "equal");
            kani::cover!(w != v, "different");
            core::mem::forget(op);
        }
    };
}
from_value_bool!(c10_from_value_true, true);
from_value_bool!(c10_from_value_false, false);
from_value!(c10_from_value_int, 2);
from_value!(c10_from_value_float, 3);

// a string-typed Equals against a number compares numerically (the documented string/number cross-type comparison):
// Int(n).test(Equals(s)) for every s of <= 3 ASCII characters over digits, signs and a letter
fn sigma10(i: u8) -> u8 {
    match i % 6 { 0 => b'-', 1 => b'+', 2 => b'0', 3 => b'1', 4 => b'9', _ => b'x' }
}
macro_rules! int_equals_str {
    ($name:ident, $n:expr) => {
        #[kani::proof]
        #[kani::unwind(8)]
        fn $name() {
            let i: [u8; 3] = kani::any();
            let b: [u8; 3] = [sigma10(i[0]), sigma10(i[1]), sigma10(i[2])];
            let s: &str = unsafe { core::str::from_utf8_unchecked(&b[..$n]) };
            let n: isize = kani::any();
            let v = DataValue::Int(n);
            let op = DataOperator::Equals(Cow::Borrowed(s));
            let got = v.test(&op);
            // oracle: s is [+-]?digits+ and its value is n
            let (sign, start): (isize, usize) = if $n > 0 && b[0] == b'-' { (-1, 1) } else if $n > 0 && b[0] == b'+' { (1, 1) } else { (1, 0) };
            let mut numeric = start < $n;
            let mut val: isize = 0;
            let mut k = start;
            while k < $n {
                if b[k].is_ascii_digit() { val = val * 10 + (b[k] - b'0') as isize; } else { numeric = false; }
                k += 1;
            }
            assert!(got == (numeric && sign * val == n), "Int(n) passes Equals(s) exactly when s is the decimal form of n");
            kani::cover!(got && n < 0, "negative number matched by its text");
            kani::cover!(!got && numeric, "numeric text of another number");
            core::mem::forget(op);
        }
    };
}
int_equals_str!(c10_int_equals_str_len2, 2);
int_equals_str!(c10_int_equals_str_len3, 3);
