use super::super::*;
pub(crate) fn rm_from_rows<A: Handle, B: Handle>(rows: Vec<Vec<B>>) -> RelationMap<A, B> {
    RelationMap { data: rows, _marker: PhantomData }
}
