// C03 — temporary identifiers: lookup is total (never panics) and syntax-exact, for every string of <= 3 code points
use super::super::*;
use crate::textselection::{TextSelection, TextSelectionHandle};

fn any_char() -> char {
    let c: char = kani::any();
    c
}

/// UTF-8 encoding of the first n of the 3 code points into a stack buffer; returns the byte length
fn encode(n: usize, cs: &[char; 3], buf: &mut [u8; 12]) -> usize {
    let mut len = 0;
    let mut i = 0;
    while i < n {
        len += cs[i].encode_utf8(&mut buf[len..]).len();
        i += 1;
    }
    len
}

macro_rules! temp_id_total {
    ($name:ident, $n:expr) => {
        #[kani::proof]
        #[kani::unwind(8)]
        fn $name() {
            let cs: [char; 3] = [any_char(), any_char(), any_char()];
            let mut buf = [0u8; 12];
            let len = encode($n, &cs, &mut buf);
            // the buffer holds the UTF-8 encoding of n chars: valid by construction
            let s: &str = unsafe { core::str::from_utf8_unchecked(&buf[..len]) };
            let got = resolve_temp_id(s);
            if let Some(n) = got {
                assert!($n >= 3, "a temporary id needs '!', a type letter and at least one digit");
                assert!(cs[0] == '!', "a temporary id starts with '!'");
                assert!(cs[1].is_ascii_uppercase(), "the type letter is an ASCII capital");
                // with 3 code points the numeric part is one digit
                assert!(cs[2].is_ascii_digit() && n == (cs[2] as usize - '0' as usize), "the number is the decimal value of the digits");
            } else if $n == 3 {
                assert!(!(cs[0] == '!' && cs[1].is_ascii_uppercase() && cs[2].is_ascii_digit()), "every well-formed temporary id resolves");
            }
            kani::cover!($n < 3 || got.is_some(), "resolved (strings of 3 code points)");
            kani::cover!($n < 2 || (cs[0] == '!' && cs[1].len_utf8() == 2 && cs[1].is_uppercase()), "2-byte uppercase letter after '!'");
            kani::cover!($n < 2 || (cs[0] == '!' && cs[1].len_utf8() == 4), "4-byte character after '!'");
        }
    };
}
temp_id_total!(c03_tempid_len0, 0);
temp_id_total!(c03_tempid_len1, 1);
temp_id_total!(c03_tempid_len2, 2);
temp_id_total!(c03_tempid_len3, 3);

// longer numeric part: "!A" + 3 symbolic ASCII bytes (digits or not)
#[kani::proof]
#[kani::unwind(10)]
fn c03_tempid_ascii5() {
    let b: [u8; 3] = kani::any();
    kani::assume(b[0] < 128 && b[1] < 128 && b[2] < 128);
    let letter: u8 = kani::any();
    kani::assume(letter < 128);
    let bytes = [b'!', letter, b[0], b[1], b[2]];
    // all bytes < 128: valid UTF-8
    let s: &str = unsafe { core::str::from_utf8_unchecked(&bytes) };
    let got = resolve_temp_id(s);
    let alldigits = b[0].is_ascii_digit() && b[1].is_ascii_digit() && b[2].is_ascii_digit();
    let val = if alldigits { (b[0] as usize - 48) * 100 + (b[1] as usize - 48) * 10 + (b[2] as usize - 48) } else { 0 };
    if (letter as char).is_ascii_uppercase() && alldigits {
        assert!(got == Some(val), "'!X' followed by digits resolves to their decimal value");
    }
    if let Some(n) = got {
        assert!((letter as char).is_ascii_uppercase(), "the type letter is an ASCII capital");
        // std's integer grammar: an optional '+' then digits
        assert!(alldigits || (b[0] == b'+' && b[1].is_ascii_digit() && b[2].is_ascii_digit()), "the numeric part is a decimal number");
        if alldigits { assert!(n == val, "decimal value"); }
    }
    kani::cover!(got == Some(907), "three digits");
    kani::cover!(got.is_none() && alldigits, "digits but no type letter");
}

// ---- tombstones do not resolve: StoreFor::has / get on a removed slot (handle-level half of "stop resolving the moment the item is removed")
#[kani::proof]
#[kani::unwind(5)]
#[kani::stub(alloc::fmt::format, crate::types::kani_verif::common::fmt_stub)]
fn c03_has_after_remove() {
    let mut res = crate::resources::kani_verif::common::bare(10);
    {
        let v = crate::resources::kani_verif::common::selections_mut(&mut res);
        v.push(Some(TextSelection { intid: Some(TextSelectionHandle::new(0)), begin: 0, end: 1 }));
        v.push(None);
        v.push(Some(TextSelection { intid: Some(TextSelectionHandle::new(2)), begin: 2, end: 3 }));
    }
    let h: u32 = kani::any();
    kani::assume(h < 5);
    let live = h == 0 || h == 2;
    assert!(res.has(TextSelectionHandle::new(h as usize)) == live, "has() is true exactly for live items (not for tombstones, not beyond the store)");
    let g = res.get(TextSelectionHandle::new(h as usize));
    assert!(g.is_ok() == live, "get() resolves exactly the live items");
    kani::cover!(h == 1, "tombstone");
    kani::cover!(h == 4, "beyond the store");
    core::mem::forget(g);
    core::mem::forget(res);
}

// ---- gaps(): for every presence shape of a 3-slot store the gap list is (first live handle after a run of k tombstones, -k)
macro_rules! gaps_shape {
    ($name:ident, [$p0:expr, $p1:expr, $p2:expr]) => {
        #[kani::proof]
        #[kani::unwind(6)]
        fn $name() {
            let present = [$p0, $p1, $p2];
            let mut store: Vec<Option<TextSelection>> = Vec::with_capacity(4);
            let mut i = 0;
            while i < 3 {
                let b: usize = kani::any();
                if present[i] { store.push(Some(TextSelection { intid: Some(TextSelectionHandle::new(i)), begin: b, end: b })); } else { store.push(None); }
                i += 1;
            }
            let gaps = store.gaps();
            // oracle
            let mut want: [(usize, isize); 3] = [(0, 0); 3];
            let mut n = 0;
            let mut run: isize = 0;
            let mut j = 0;
            while j < 3 {
                if !present[j] { run -= 1; } else if run != 0 { want[n] = (j, run); n += 1; run = 0; }
                j += 1;
            }
            assert!(gaps.len() == n, "one gap entry per run of tombstones that is followed by a live item");
            let mut k = 0;
            while k < 3 {
                if k < n { assert!(gaps[k].0.as_usize() == want[k].0 && gaps[k].1 == want[k].1, "gap entry = (first live handle after the run, -length of the run)"); }
                k += 1;
            }
            kani::cover!(true, "reached");
            core::mem::forget(gaps);
            core::mem::forget(store);
        }
    };
}
gaps_shape!(c03_gaps_111, [true, true, true]);
gaps_shape!(c03_gaps_011, [false, true, true]);
gaps_shape!(c03_gaps_101, [true, false, true]);
gaps_shape!(c03_gaps_001, [false, false, true]);
gaps_shape!(c03_gaps_110, [true, true, false]);
gaps_shape!(c03_gaps_010, [false, true, false]);
gaps_shape!(c03_gaps_000, [false, false, false]);

// concrete witnesses (NO symbolic input; ordinary tests run through the same tool chain): malformed temporary ids with
// trailing characters after the number, longer than the symbolic harnesses reach
macro_rules! tempid_witness {
    ($name:ident, $lit:expr, $want:expr) => {
        #[kani::proof]
        #[kani::unwind(12)]
        fn $name() {
            let got = resolve_temp_id($lit);
            assert!(got == $want, "only '!', a capital letter and nothing but decimal digits is a temporary id");
            kani::cover!(true, "reached");
        }
    };
}
tempid_witness!(c03_witness_trailing_letter, "!A0x", None);
tempid_witness!(c03_witness_trailing_space, "!A12 ", None);
tempid_witness!(c03_witness_two_ids, "!A0!A1", None);
tempid_witness!(c03_witness_wellformed_long, "!A1234567", Some(1234567));
