// C01 — laws of the reverse-index containers (RelationMap, TripleRelationMap), one operation from a
// concretely shaped, symbolically filled state. Oracle: a plain array mirror updated by the obvious rule.
use super::super::*;
use crate::annotation::AnnotationHandle;
use crate::annotationdata::AnnotationDataHandle;
use crate::annotationdataset::AnnotationDataSetHandle;
use crate::resources::TextResourceHandle;
use crate::textselection::TextSelectionHandle;

type RM = RelationMap<TextResourceHandle, AnnotationHandle>;
type TM = TripleRelationMap<TextResourceHandle, TextSelectionHandle, AnnotationHandle>;

const ROWS: usize = 3;

/// rows of length 2,1,0 (spare capacity so that one push does not reallocate), values symbolic
fn mk_rm(v: &[u32; 3]) -> RM {
    mk_rm_first(v, None)
}
/// same, with an optional extra entry `w` at the FRONT of row 0 (row lengths 3,1,0)
fn mk_rm_first(v: &[u32; 3], w: Option<u32>) -> RM {
    let mut data: Vec<Vec<AnnotationHandle>> = Vec::with_capacity(ROWS + 1);
    let mut r0 = Vec::with_capacity(4);
    if let Some(w) = w { r0.push(AnnotationHandle::new(w as usize)); }
    r0.push(AnnotationHandle::new(v[0] as usize));
    r0.push(AnnotationHandle::new(v[1] as usize));
    let mut r1 = Vec::with_capacity(4);
    r1.push(AnnotationHandle::new(v[2] as usize));
    let r2 = Vec::with_capacity(4);
    data.push(r0);
    data.push(r1);
    data.push(r2);
    RM { data, _marker: PhantomData }
}
fn any_vals() -> [u32; 3] {
    let v: [u32; 3] = kani::any();
    kani::assume(v[0] < 8 && v[1] < 8 && v[2] < 8);
    v
}
fn row(m: &RM, i: usize) -> (usize, u32, u32, u32) {
    // (len, first three entries or 99)
    match m.data.get(i) {
        None => (usize::MAX, 99, 99, 99),
        Some(r) => (
            r.len(),
            r.get(0).map(|h| h.as_usize() as u32).unwrap_or(99),
            r.get(1).map(|h| h.as_usize() as u32).unwrap_or(99),
            r.get(2).map(|h| h.as_usize() as u32).unwrap_or(99),
        ),
    }
}

#[kani::proof]
#[kani::unwind(5)]
fn c01_rm_remove_all() {
    let v = any_vals();
    let mut m = mk_rm(&v);
    let x: u32 = kani::any();
    kani::assume(x < 6);
    let before = [row(&m, 0), row(&m, 1), row(&m, 2)];
    m.remove_all(TextResourceHandle::new(x as usize));
    assert!(m.data.len() == ROWS, "remove_all never adds, removes or shifts rows");
    let mut i = 0;
    while i < ROWS {
        if i == x as usize {
            assert!(row(&m, i).0 == 0, "remove_all(x) leaves no relation for x");
        } else {
            assert!(row(&m, i) == before[i], "remove_all(x) leaves every other row untouched");
        }
        i += 1;
    }
    assert!(m.get(TextResourceHandle::new(x as usize)).map(|r| r.is_empty()).unwrap_or(true), "lookup after remove_all finds nothing");
    kani::cover!(x == 0, "non-empty row removed");
    kani::cover!(x >= 3, "out-of-range handle");
    core::mem::forget(m);
}

#[kani::proof]
#[kani::unwind(5)]
fn c01_rm_remove() {
    let v = any_vals();
    let mut m = mk_rm(&v);
    let x: u32 = kani::any();
    let y: u32 = kani::any();
    kani::assume(x < 6 && y < 8);
    let before = [row(&m, 0), row(&m, 1), row(&m, 2)];
    m.remove(TextResourceHandle::new(x as usize), AnnotationHandle::new(y as usize));
    assert!(m.data.len() == ROWS, "remove never adds, removes or shifts rows");
    // oracle
    let mut want = before;
    if x == 0 {
        if v[0] == y { want[0] = (1, v[1], 99, 99); } else if v[1] == y { want[0] = (1, v[0], 99, 99); }
    } else if x == 1 {
        if v[2] == y { want[1] = (0, 99, 99, 99); }
    }
    assert!(row(&m, 0) == want[0] && row(&m, 1) == want[1] && row(&m, 2) == want[2],
        "remove(x,y) removes exactly one occurrence of y from row x and nothing else");
    kani::cover!(x == 0 && v[0] == y && v[1] == y, "duplicate entry, one removed");
    kani::cover!(x == 0 && v[1] == y && v[0] != y, "second entry removed");
    kani::cover!(x >= 3, "out of range");
    core::mem::forget(m);
}

// removal from a row of three keeps the remaining entries in their (chronological) order
#[kani::proof]
#[kani::unwind(6)]
fn c01_rm_remove_keeps_order() {
    let v = any_vals();
    let w: u32 = kani::any();
    let y: u32 = kani::any();
    kani::assume(w < 8 && y < 8);
    let mut m = mk_rm_first(&v, Some(w));
    m.remove(TextResourceHandle::new(0), AnnotationHandle::new(y as usize));
    // oracle: drop the first occurrence of y from [w, v0, v1]
    let src = [w, v[0], v[1]];
    let mut want = [99u32; 3];
    let mut n = 0;
    let mut dropped = false;
    let mut i = 0;
    while i < 3 {
        if !dropped && src[i] == y { dropped = true; } else { want[n] = src[i]; n += 1; }
        i += 1;
    }
    assert!(row(&m, 0) == (n, want[0], want[1], want[2]), "remove(x,y) drops one occurrence and keeps the others in their order");
    assert!(row(&m, 1) == (1, v[2], 99, 99) && row(&m, 2).0 == 0, "other rows untouched");
    kani::cover!(dropped && w == y && v[0] != v[1], "oldest of three distinct entries removed");
    kani::cover!(!dropped, "nothing to remove");
    core::mem::forget(m);
}

// the row index is concrete per harness: a symbolic one drags the (infeasible) resize_with branch with a symbolic
// new length into the formula, which is out of reach
macro_rules! rm_insert_inrange {
    ($name:ident, $x:expr) => {
        #[kani::proof]
        #[kani::unwind(5)]
        fn $name() {
            let v = any_vals();
            let mut m = mk_rm(&v);
            let x: u32 = $x;
            let y: u32 = kani::any();
            kani::assume(y < 8);
            let before = [row(&m, 0), row(&m, 1), row(&m, 2)];
            let total = m.totalcount();
            assert!(total == 3, "totalcount is the number of relations");
            m.insert(TextResourceHandle::new(x as usize), AnnotationHandle::new(y as usize));
            assert!(m.data.len() == ROWS && m.totalcount() == 4, "insert adds exactly one relation");
            let mut want = before;
            if x == 0 { want[0] = (3, v[0], v[1], y); } else if x == 1 { want[1] = (2, v[2], y, 99); } else { want[2] = (1, y, 99, 99); }
            assert!(row(&m, 0) == want[0] && row(&m, 1) == want[1] && row(&m, 2) == want[2],
                "insert(x,y) appends y to row x (chronological order) and touches nothing else");
            kani::cover!(y == v[0], "relation inserted a second time");
            core::mem::forget(m);
        }
    };
}
rm_insert_inrange!(c01_rm_insert_row0, 0);
rm_insert_inrange!(c01_rm_insert_row1, 1);
rm_insert_inrange!(c01_rm_insert_row2, 2);

// growth: the row index is concrete (a symbolic one makes the vector length symbolic, out of reach)
macro_rules! rm_insert_grow {
    ($name:ident, $x:expr) => {
        #[kani::proof]
        #[kani::unwind(8)]
        fn $name() {
            let v = any_vals();
            let mut m = mk_rm(&v);
            let y: u32 = kani::any();
            kani::assume(y < 8);
            let before = [row(&m, 0), row(&m, 1), row(&m, 2)];
            m.insert(TextResourceHandle::new($x), AnnotationHandle::new(y as usize));
            assert!(m.data.len() == $x + 1, "map grows to hold the new row");
            assert!(row(&m, 0) == before[0] && row(&m, 1) == before[1] && row(&m, 2) == before[2], "existing rows untouched");
            assert!(row(&m, $x) == (1, y, 99, 99), "the new row holds exactly the new relation");
            let mut i = ROWS;
            while i < $x { assert!(row(&m, i).0 == 0, "rows in between are empty"); i += 1; }
            kani::cover!(y == 7, "reached");
            core::mem::forget(m);
        }
    };
}
rm_insert_grow!(c01_rm_insert_grow3, 3);
rm_insert_grow!(c01_rm_insert_grow5, 5);

// ---------------------------------------------------------------- TripleRelationMap: 2 outer rows x 2 inner rows
fn inner(a: Option<u32>, b: Option<u32>) -> RelationMap<TextSelectionHandle, AnnotationHandle> {
    let mut data: Vec<Vec<AnnotationHandle>> = Vec::with_capacity(3);
    let mut r0 = Vec::with_capacity(2);
    if let Some(a) = a { r0.push(AnnotationHandle::new(a as usize)); }
    let mut r1 = Vec::with_capacity(2);
    if let Some(b) = b { r1.push(AnnotationHandle::new(b as usize)); }
    data.push(r0);
    data.push(r1);
    RelationMap { data, _marker: PhantomData }
}
/// outer row 0: inner rows [v0],[v1]; outer row 1: inner rows [v2],[]
fn mk_tm(v: &[u32; 3]) -> TM {
    let mut data = Vec::with_capacity(3);
    data.push(inner(Some(v[0]), Some(v[1])));
    data.push(inner(Some(v[2]), None));
    TM { data, _marker: PhantomData }
}
fn cell(m: &TM, x: usize, y: usize) -> (usize, u32, u32) {
    match m.get(TextResourceHandle::new(x), TextSelectionHandle::new(y)) {
        None => (usize::MAX, 99, 99),
        Some(r) => (r.len(), r.get(0).map(|h| h.as_usize() as u32).unwrap_or(99), r.get(1).map(|h| h.as_usize() as u32).unwrap_or(99)),
    }
}
fn cells(m: &TM) -> [(usize, u32, u32); 4] { [cell(m, 0, 0), cell(m, 0, 1), cell(m, 1, 0), cell(m, 1, 1)] }
fn cell_empty(c: (usize, u32, u32)) -> bool { c.0 == 0 || c.0 == usize::MAX }

#[kani::proof]
#[kani::unwind(5)]
fn c01_tm_remove_all() {
    let v = any_vals();
    let mut m = mk_tm(&v);
    let x: u32 = kani::any();
    kani::assume(x < 5);
    let before = cells(&m);
    m.remove_all(TextResourceHandle::new(x as usize));
    let after = cells(&m);
    let mut i = 0;
    while i < 4 {
        if i / 2 == x as usize {
            assert!(cell_empty(after[i]), "remove_all(x) leaves no relation under x");
        } else {
            assert!(after[i] == before[i], "remove_all(x) leaves the relations of every other item where they were");
        }
        i += 1;
    }
    kani::cover!(x == 0, "first outer row removed (a shift would move row 1)");
    kani::cover!(x >= 2, "out-of-range handle");
    core::mem::forget(m);
}

#[kani::proof]
#[kani::unwind(5)]
fn c01_tm_remove_second() {
    let v = any_vals();
    let mut m = mk_tm(&v);
    let x: u32 = kani::any();
    let y: u32 = kani::any();
    kani::assume(x < 4 && y < 4);
    let before = cells(&m);
    m.remove_second(TextResourceHandle::new(x as usize), TextSelectionHandle::new(y as usize));
    let after = cells(&m);
    let mut i = 0;
    while i < 4 {
        if i / 2 == x as usize && i % 2 == y as usize {
            assert!(cell_empty(after[i]), "remove_second(x,y) leaves no relation under (x,y)");
        } else {
            assert!(after[i] == before[i], "remove_second(x,y) leaves every other cell untouched");
        }
        i += 1;
    }
    kani::cover!(x == 0 && y == 0, "non-empty cell removed");
    kani::cover!(x >= 2 || y >= 2, "out of range");
    core::mem::forget(m);
}

#[kani::proof]
#[kani::unwind(5)]
fn c01_tm_remove() {
    let v = any_vals();
    let mut m = mk_tm(&v);
    let x: u32 = kani::any();
    let y: u32 = kani::any();
    let z: u32 = kani::any();
    kani::assume(x < 4 && y < 4 && z < 8);
    let before = cells(&m);
    m.remove(TextResourceHandle::new(x as usize), TextSelectionHandle::new(y as usize), AnnotationHandle::new(z as usize));
    let after = cells(&m);
    let mut i = 0;
    while i < 4 {
        if i / 2 == x as usize && i % 2 == y as usize && before[i].0 == 1 && before[i].1 == z {
            assert!(after[i].0 == 0, "remove(x,y,z) removes the relation");
        } else {
            assert!(after[i] == before[i], "remove(x,y,z) leaves every other relation untouched");
        }
        i += 1;
    }
    assert!(m.totalcount() == 3 || m.totalcount() == 2, "at most one relation removed");
    kani::cover!(m.totalcount() == 2, "a relation was removed");
    kani::cover!(x >= 2, "out of range");
    core::mem::forget(m);
}

// NOT decided: TripleRelationMap::insert. The inner maps live in the outer vector's heap buffer, so the length test
// guarding resize_with is never constant for the symbolic executor: out of memory at 28 GB for a symbolic shape, a
// concrete shape with a symbolic handle, and a fully concrete witness alike.
