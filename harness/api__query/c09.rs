// C09 — STAMQL parser kernels are total: get_arg_type . parse_dataoperator on every ASCII string of <= 3 bytes,
// get_arg on <= 4 code points of a hostile alphabet, Query::parse on the bare keywords.
use super::super::*;
use crate::types::kani_verif::common::{fmt_stub, rs_new};

/// stands in for <f64 as FromStr>::from_str (core::num::dec2flt, out of reach). Contract relied on: the documented
/// grammar of f64::from_str - [+-]? ( digits [. digits*] | . digits ) [ (e|E) [+-]? digits ] | inf | infinity | nan (any case).
/// The numeric value is arbitrary (never a subject here).
pub(crate) fn f64_from_str_model(s: &str) -> Result<f64, core::num::ParseFloatError> {
    let b = s.as_bytes();
    let mut i = 0;
    if i < b.len() && (b[i] == b'+' || b[i] == b'-') { i += 1; }
    let rest = &b[i..];
    let special = rest.eq_ignore_ascii_case(b"inf") || rest.eq_ignore_ascii_case(b"nan") || rest.eq_ignore_ascii_case(b"infinity");
    let mut ok = special;
    if !special {
        let mut j = 0;
        let mut intdigits = 0;
        while j < rest.len() && rest[j].is_ascii_digit() { j += 1; intdigits += 1; }
        let mut fracdigits = 0;
        if j < rest.len() && rest[j] == b'.' {
            j += 1;
            while j < rest.len() && rest[j].is_ascii_digit() { j += 1; fracdigits += 1; }
        }
        let mut mantissa_ok = intdigits + fracdigits > 0;
        if mantissa_ok && j < rest.len() && (rest[j] == b'e' || rest[j] == b'E') {
            j += 1;
            if j < rest.len() && (rest[j] == b'+' || rest[j] == b'-') { j += 1; }
            let mut expdigits = 0;
            while j < rest.len() && rest[j].is_ascii_digit() { j += 1; expdigits += 1; }
            if expdigits == 0 { mantissa_ok = false; }
        }
        ok = mantissa_ok && j == rest.len();
    }
    if ok {
        Ok(kani::any())
    } else {
        // the only way to obtain a ParseFloatError value
        Err(unsafe { core::mem::transmute::<u8, core::num::ParseFloatError>(1u8) })
    }
}

/// stands in for chrono's RFC 3339 parser (out of reach): no string of <= 4 bytes is a date-time
pub(crate) fn rfc3339_stub(_s: &str) -> chrono::ParseResult<DateTime<FixedOffset>> {
    Err(unsafe { core::mem::transmute::<u8, chrono::ParseError>(0u8) })
}

/// one representative per character class the classifier distinguishes (digit, '-', '.', '\\', '+', other, space)
fn sigma(i: u8) -> u8 {
    match i % 8 { 0 => b'-', 1 => b'.', 2 => b'0', 3 => b'7', 4 => b'9', 5 => b'\\', 6 => b'+', _ => b'a' }
}

macro_rules! argtype_dataop {
    ($name:ident, $n:expr, $op:expr) => {
        #[kani::proof]
        #[kani::unwind(8)]
        #[kani::stub(alloc::fmt::format, fmt_stub)]
        #[kani::stub(<f64 as core::str::FromStr>::from_str, f64_from_str_model)]
        #[kani::stub(chrono::DateTime::<FixedOffset>::parse_from_rfc3339, rfc3339_stub)]
        fn $name() {
            let i: [u8; 3] = kani::any();
            let b: [u8; 3] = [sigma(i[0]), sigma(i[1]), sigma(i[2])];
            let s: &str = unsafe { core::str::from_utf8_unchecked(&b[..$n]) };
            let ty = get_arg_type(s, false);
            let r = parse_dataoperator($op, s, ty);
            kani::cover!($n < 1 || (ty == ArgType::Integer && r.is_ok()), "integer literal");
            kani::cover!($n < 2 || (ty == ArgType::Integer && b[0] == b'-'), "negative integer literal");
            kani::cover!(ty == ArgType::String, "string");
            core::mem::forget(r);
        }
    };
}
argtype_dataop!(c09_argtype_eq_len0, 0, "=");
argtype_dataop!(c09_argtype_eq_len1, 1, "=");
argtype_dataop!(c09_argtype_eq_len2, 2, "=");
argtype_dataop!(c09_argtype_eq_len3, 3, "=");
argtype_dataop!(c09_argtype_ne_len2, 2, "!=");
argtype_dataop!(c09_argtype_gt_len2, 2, ">");
argtype_dataop!(c09_argtype_le_len2, 2, "<=");

// a quoted value is never classified as a number (so never reaches a numeric conversion)
#[kani::proof]
#[kani::unwind(8)]
#[kani::stub(chrono::DateTime::<FixedOffset>::parse_from_rfc3339, rfc3339_stub)]
fn c09_argtype_quoted() {
    let i: [u8; 3] = kani::any();
    let b: [u8; 3] = [sigma(i[0]), sigma(i[1]), sigma(i[2])];
    let n: usize = kani::any();
    kani::assume(n <= 3);
    let s: &str = unsafe { core::str::from_utf8_unchecked(&b[..n]) };
    let ty = get_arg_type(s, true);
    assert!(ty != ArgType::Integer && ty != ArgType::Float && ty != ArgType::UnquotedList, "a quoted value is never numeric");
    kani::cover!(n == 3 && b[0] == b'7' && b[1] == b'0', "quoted digits");
}

// (a symbolic 20-digit literal does not finish: > 20 min in the integer parser; see the concrete witnesses below)
// concrete witnesses (NO symbolic input - these are ordinary tests run through the same tool chain, kept because a
// symbolic 20-digit harness does not finish): literals just beyond the integer range, both signs
macro_rules! overflow_witness {
    ($name:ident, $lit:expr) => {
        #[kani::proof]
        #[kani::unwind(24)]
        #[kani::stub(alloc::fmt::format, fmt_stub)]
        #[kani::stub(<f64 as core::str::FromStr>::from_str, f64_from_str_model)]
        #[kani::stub(chrono::DateTime::<FixedOffset>::parse_from_rfc3339, rfc3339_stub)]
        fn $name() {
            let s: &str = $lit;
            let ty = get_arg_type(s, false);
            assert!(ty != ArgType::Integer, "a literal that does not fit the integer type is not classified as an integer");
            let r = parse_dataoperator("=", s, ty);
            kani::cover!(r.is_ok(), "accepted as a string");
            core::mem::forget(r);
        }
    };
}
overflow_witness!(c09_witness_overflow_pos, "9223372036854775808");
overflow_witness!(c09_witness_overflow_neg, "-9223372036854775809");
overflow_witness!(c09_witness_overflow_20digits, "99999999999999999999");

// (get_arg itself - trim_start, starts_with, char_indices on symbolic text - was tried on 2-4 characters and does not
// finish within 20 min / 27 GB)
// NOT decided here: Query::parse on the bare keywords "SELECT" / "ADD" / "DELETE" (fixed-width slices [7..], [4..]).
// Any harness from which Constraint::parse is reachable pulls in the regex crate, on which kani-compiler 0.68
// crashes (internal compiler error in regex_automata::meta::strategy::new); see DESIGN.md.
