#!/usr/bin/env python3
"""regenerates MANIFEST.json from registry.json + manifest_meta.json (run by hand after editing either)"""
import json, os
V = os.path.dirname(os.path.realpath(__file__))
reg = json.load(open(os.path.join(V, "registry.json")))
meta = json.load(open(os.path.join(V, "manifest_meta.json")))
checks = []
for pid in sorted(reg["properties"]):
    m = meta["checks"][pid]
    checks.append({
        "property_id": pid,
        "quick_cmd": "./check %s --tier quick" % pid,
        "thorough_cmd": "./check %s --tier thorough" % pid,
        "evidence_file": "/verif/evidence/%s.json" % pid,
        "replay_cmd_template": "./check %s --replay {path}" % pid,
        "engine": "kani-cbmc",
        "level_claimed": {"category": "model_checking", "text": m["text"], "design_ref": m["design_ref"]},
        "level_note": m["note"],
        "technique": m["technique"],
    })
man = {
    "version": 1,
    "setup_cmd": "./setup.sh",
    "hooks": {
        "guard": "kani",
        "enable": "no source hooks: ./check copies /repo's working tree to a scratch directory and appends '#[cfg(kani)] #[path=...] pub(crate) mod kani_verif;' to the modules under test in the COPY; cfg(kani) is set by cargo-kani itself",
        "baseline_off_cmd": "cd /repo && cargo test --workspace --no-fail-fast --offline",
        "source_commits": [],
        "add_only": True,
    },
    "engines": [{
        "name": "kani-cbmc", "path": "/verif/check",
        "serves_properties": sorted(reg["properties"]),
        "kind_free_text": "bounded model checking of the compiled Rust (kani-compiler 0.68 -> goto-cc/goto-instrument -> CBMC 6.11, CaDiCaL; kissat cross-check in the thorough tier); harnesses in /verif/harness are injected as child modules of a scratch copy of /repo on every run",
    }],
    "checks": checks,
    "notes": meta["notes"],
    "not_applicable": meta["not_applicable"],
}
json.dump(man, open(os.path.join(V, "MANIFEST.json"), "w"), indent=1)
print("wrote MANIFEST.json with", len(checks), "checks")
