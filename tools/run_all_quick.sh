#!/bin/sh
# runs every claimed check's quick tier once, sequentially, against /repo; writes evidence/<ID>.json
cd "$(dirname "$0")/.."
for id in $(python3 -c "import json;print(' '.join(sorted(json.load(open('registry.json'))['properties'])))"); do
  s=$(date +%s)
  ./check $id --tier quick > /tmp/quick-$id.log 2>&1
  rc=$?
  e=$(date +%s)
  echo "$id exit=$rc wall=$((e-s))s $(grep -c ' pass ' /tmp/quick-$id.log) pass"
done
