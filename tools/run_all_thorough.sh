#!/bin/sh
# runs every claimed check's thorough tier once, sequentially, against /repo (no evidence written: pass --evidence to write)
cd "$(dirname "$0")/.."
EV="--no-evidence"; [ "$1" = "--evidence" ] && EV=""
for id in $(python3 -c "import json;print(' '.join(sorted(json.load(open('registry.json'))['properties'])))"); do
  s=$(date +%s)
  ./check $id --tier thorough $EV > /tmp/thorough-$id.log 2>&1
  rc=$?
  e=$(date +%s)
  echo "$id exit=$rc wall=$((e-s))s $(grep -c ' pass ' /tmp/thorough-$id.log) pass $(grep -c 'inconclusive:' /tmp/thorough-$id.log) inconclusive"
done
