#!/usr/bin/env python3
"""for each 'fix:' commit of /repo: scratch worktree at HEAD, revert that one commit, run the property's quick check
against it; the check must report a VIOLATION (the repaired defect is guarded). Results -> /verif/seeded/reverts.json"""
import json, os, re, shutil, subprocess, sys, time
V="/verif"
kf=json.load(open(os.path.join(V,"known_findings.json")))
todo=[(f["commit"],f["property"],f["id"]) for f in kf["findings"] if f["status"]=="fixed"]
only=sys.argv[1:]  # optional list of ids
out_path=os.path.join(V,"seeded","reverts.json")
res=json.load(open(out_path)) if os.path.exists(out_path) else {}
for commit,prop,fid in todo:
    if only and fid not in only: continue
    wt="/tmp/rv-"+fid
    subprocess.run(["git","-C","/repo","worktree","remove","--force",wt],stderr=subprocess.DEVNULL)
    shutil.rmtree(wt,ignore_errors=True)
    subprocess.run(["git","-C","/repo","worktree","add","-q","--detach",wt,"HEAD"],check=True)
    entry={"property":prop,"reverted_commit":commit}
    try:
        r=subprocess.run(["git","-C",wt,"revert","--no-commit",commit],stdout=subprocess.PIPE,stderr=subprocess.STDOUT)
        if r.returncode!=0:
            entry["revert"]="conflict (later fixes touch the same lines)"; 
        else:
            entry["revert"]="ok"
            t0=time.time()
            e=dict(os.environ,VERIF_REPO=wt)
            c=subprocess.run([os.path.join(V,"check"),prop,"--tier","quick","--no-evidence"],cwd=V,env=e,stdout=subprocess.PIPE,stderr=subprocess.STDOUT,timeout=7200)
            o=c.stdout.decode("utf-8","replace")
            entry.update(check_exit=c.returncode,wall_s=round(time.time()-t0),violations=re.findall(r"^  violation in (\S+):",o,re.M)[:10],
                         inconclusive=re.findall(r"^  inconclusive: (\S+):",o,re.M)[:6],detected=(c.returncode==1))
    finally:
        subprocess.run(["git","-C","/repo","worktree","remove","--force",wt],stderr=subprocess.DEVNULL)
        shutil.rmtree(wt,ignore_errors=True)
        subprocess.run(["git","-C","/repo","worktree","prune"])
    res[fid]=entry
    json.dump(res,open(out_path,"w"),indent=1)
    print(fid,entry.get("revert"),entry.get("check_exit"),entry.get("detected"),entry.get("wall_s"),flush=True)
