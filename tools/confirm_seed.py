#!/usr/bin/env python3
"""confirm a seeded mutation and run the property's check against it.
usage: confirm_seed.py <seed_dir> <PROP> <name> [--tier quick]
 seed_dir holds patch.diff, demo.rs, meta.json (written by an independent sub-agent).
 Steps (all in a scratch worktree of /repo under /tmp, removed afterwards):
  1. clean tree: demo passes
  2. patch applied: existing suite passes (test_write_include tolerated), demo fails
  3. ./check PROP against the patched tree (VERIF_REPO), exit code and VIOLATION lines recorded
 Result is written to /verif/seeded/<name>/ (patch.diff, demo.rs, meta.json)."""
import json, os, re, shutil, subprocess, sys, time
seed, prop, name = sys.argv[1], sys.argv[2], sys.argv[3]
tier = "quick"
if "--tier" in sys.argv: tier = sys.argv[sys.argv.index("--tier") + 1]
V = "/verif"
wt = "/tmp/sc-" + name
env = dict(os.environ, CARGO_NET_OFFLINE="true")
def run(cmd, cwd=None, timeout=3600, extra_env=None):
    e = dict(env); e.update(extra_env or {})
    r = subprocess.run(cmd, cwd=cwd, env=e, stdout=subprocess.PIPE, stderr=subprocess.STDOUT, timeout=timeout)
    return r.returncode, r.stdout.decode("utf-8", "replace")
subprocess.run(["git", "-C", "/repo", "worktree", "remove", "--force", wt], stderr=subprocess.DEVNULL)
shutil.rmtree(wt, ignore_errors=True)
rc, out = run(["git", "-C", "/repo", "worktree", "add", "-q", "--detach", wt, "HEAD"])
assert rc == 0, out
res = {"property": prop, "name": name, "base_commit": subprocess.run(["git","-C","/repo","rev-parse","--short","HEAD"],stdout=subprocess.PIPE).stdout.decode().strip()}
try:
    shutil.copy(os.path.join(seed, "demo.rs"), os.path.join(wt, "tests", "demo_seed.rs"))
    rc, out = run(["cargo", "test", "--offline", "--test", "demo_seed"], cwd=wt)
    res["demo_clean_passes"] = (rc == 0)
    res["demo_clean_tail"] = out[-600:]
    rc, out = run(["git", "apply", os.path.join(seed, "patch.diff")], cwd=wt)
    res["patch_applies"] = (rc == 0)
    if rc != 0: res["patch_error"] = out[-500:]
    rc, out = run(["cargo", "test", "--offline", "--no-fail-fast"], cwd=wt)
    failed = sorted(set(re.findall(r"^test (\S+) \.\.\. FAILED", out, re.M)))
    res["failed_tests_with_patch"] = failed
    demo_failed = [t for t in failed if not t.startswith("test_write_include")]
    # which of the failures belong to the demo? run demo alone
    rc2, out2 = run(["cargo", "test", "--offline", "--test", "demo_seed"], cwd=wt)
    demo_tests_failed = sorted(set(re.findall(r"^test (\S+) \.\.\. FAILED", out2, re.M)))
    res["demo_fails_with_patch"] = (rc2 != 0)
    res["demo_failed_tests"] = demo_tests_failed
    res["existing_suite_passes_with_patch"] = all((t in demo_tests_failed) or t == "test_write_include" for t in failed)
    os.remove(os.path.join(wt, "tests", "demo_seed.rs"))
    t0 = time.time()
    rc, out = run([os.path.join(V, "check"), prop, "--tier", tier, "--no-evidence"], cwd=V, timeout=7200, extra_env={"VERIF_REPO": wt})
    res["check_cmd"] = "VERIF_REPO=<patched worktree> ./check %s --tier %s --no-evidence" % (prop, tier)
    res["check_exit"] = rc
    res["check_wall_s"] = round(time.time() - t0)
    res["check_violation_lines"] = re.findall(r"^VIOLATION .*$", out, re.M)
    res["check_violations_detail"] = re.findall(r"^  violation in .*$", out, re.M)[:12]
    res["check_inconclusive"] = re.findall(r"^  inconclusive: .*$", out, re.M)[:6]
    res["detected"] = (rc == 1 and bool(res["check_violation_lines"]))
finally:
    subprocess.run(["git", "-C", "/repo", "worktree", "remove", "--force", wt], stderr=subprocess.DEVNULL)
    shutil.rmtree(wt, ignore_errors=True)
    subprocess.run(["git", "-C", "/repo", "worktree", "prune"])
confirmed = res.get("demo_clean_passes") and res.get("patch_applies") and res.get("demo_fails_with_patch") and res.get("existing_suite_passes_with_patch")
res["confirmed"] = bool(confirmed)
d = os.path.join(V, "seeded", name)
os.makedirs(d, exist_ok=True)
shutil.copy(os.path.join(seed, "patch.diff"), d)
shutil.copy(os.path.join(seed, "demo.rs"), d)
agent_meta = {}
try: agent_meta = json.load(open(os.path.join(seed, "meta.json")))
except Exception as e: agent_meta = {"error": str(e)}
meta = {"property": prop, "breaks": agent_meta.get("summary"), "needs_to_manifest": agent_meta.get("needs_to_manifest"),
        "files_changed": agent_meta.get("files_changed"), "author": "independent sub-agent (saw only the property text and a scratch worktree)",
        "agent_how_verified": agent_meta.get("how_verified"), "confirmation": res}
json.dump(meta, open(os.path.join(d, "meta.json"), "w"), indent=1)
print(name, "confirmed" if confirmed else "NOT CONFIRMED", "| check exit", res.get("check_exit"), "| detected", res.get("detected"), "|", len(res.get("check_violation_lines", [])), "violation lines", "| %ss" % res.get("check_wall_s"))
