#!/bin/sh
# offline set-up: nothing to build ahead of time (every check rebuilds from /repo's working tree);
# verify that the tool chain the checks need is present
set -e
cd "$(dirname "$0")"
chmod +x check gen_manifest.py 2>/dev/null || true
cargo kani --version >/dev/null
cbmc --version >/dev/null
goto-instrument --version >/dev/null
python3 -c "import json,sys; json.load(open('registry.json')); json.load(open('known_findings.json')); json.load(open('MANIFEST.json'))"
mkdir -p evidence replays
echo "verif setup ok"
